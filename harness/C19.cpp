// C19 harness: command interpreter that executes operation sequences on the real SoPlex containers and
// vector classes and prints every observable after each step, in the text format of extract/C19/driver.ml.
// Compiled against /repo/src on every tree state (vlib.build_harness); private members are reachable
// (-fno-access-control) and are used only to print internal state (free lists) next to the public observables.
//
// case file:   CASE <id> <kind> <args...>     followed by one operation per line
// output:      CASE <id>  /  init <state>  /  <op> ret=<result> <state>
#include "soplex.h"
#include <sys/wait.h>
#include <unistd.h>
#include <signal.h>
#include "common.hpp"
#include <fstream>
#include <algorithm>
#include <memory>
#include <csignal>
#include <unistd.h>

using namespace soplex;

typedef std::vector<std::string> Toks;
static int I(const std::string& s)
{
   return atoi(s.c_str());
}

// ---------------------------------------------------------------------------------------------------------
// element type for ClassSet / ClassArray / Array: a class with user-provided copy operations that remembers
// whether it was constructed.  Assigning to an object that was never constructed (raw malloc memory) is
// counted instead of crashing; the item array of ClassSet<Elem> is allocated through the two overloads below
// (found by argument dependent lookup from the unchanged ClassSet code) which fill fresh memory with a fixed
// pattern and put a guard zone behind the array, so that writes past the end are counted instead of
// corrupting the heap.  The counters are printed only by the probe kind "csp".
// ---------------------------------------------------------------------------------------------------------
static long g_raw = 0;       // assignments whose target was never constructed
static long g_ovf = 0;       // item arrays freed with a damaged guard zone
struct Elem
{
   int v;
   unsigned magic;
   Elem() : v(0), magic(0xC0FFEE01u) {}
   Elem(int x) : v(x), magic(0xC0FFEE01u) {}
   Elem(const Elem& o) : v(o.v), magic(0xC0FFEE01u) {}
   Elem& operator=(const Elem& o)
   {
      if(magic != 0xC0FFEE01u)
      {
         g_raw++;
         magic = 0xC0FFEE01u;
      }

      v = o.v;
      return *this;
   }
   int get() const
   {
      return magic == 0xC0FFEE01u ? v : -999;
   }
};
static int val(int x)
{
   return x;
}
static int val(const Elem& e)
{
   return e.get();
}

namespace soplex
{
typedef ClassSet<Elem>::Item CSItem;
static const int GUARD = 64;   // items
static std::vector<std::pair<CSItem*, int>> g_blocks;
inline void spx_alloc(CSItem*& p, int n = 1)
{
   if(n == 0)
      n = 1;

   size_t bytes = sizeof(CSItem) * (size_t)(n + GUARD);
   p = reinterpret_cast<CSItem*>(malloc(bytes));
   memset((void*)p, 0xAA, bytes);
   g_blocks.push_back({p, n});
}
inline void spx_free(CSItem*& p)
{
   for(size_t i = 0; i < g_blocks.size(); i++)
   {
      if(g_blocks[i].first == p)
      {
         const unsigned char* g = reinterpret_cast<const unsigned char*>(p + g_blocks[i].second);

         for(size_t b = 0; b < sizeof(CSItem) * GUARD; b++)
         {
            if(g[b] != 0xAA)
            {
               g_ovf++;
               break;
            }
         }

         g_blocks.erase(g_blocks.begin() + i);
         break;
      }
   }

   free(p);
   p = nullptr;
}
static long guardDamage()
{
   long d = g_ovf;

   for(auto& b : g_blocks)
   {
      const unsigned char* g = reinterpret_cast<const unsigned char*>(b.first + b.second);

      for(size_t k = 0; k < sizeof(CSItem) * GUARD; k++)
      {
         if(g[k] != 0xAA)
         {
            d++;
            break;
         }
      }
   }

   return d;
}
}

// ---------------------------------------------------------------------------------------------------------
// DataSet<int> and ClassSet<Elem>
// ---------------------------------------------------------------------------------------------------------
template <class SET, class E>
struct SetMachine
{
   SET* s = nullptr;
   bool probe = false;  // print the instrumentation counters (kind csp)
   bool dead = false;   // internal structure found broken: later operations of the case are not executed
   ~SetMachine()
   {
      if(!dead)
         delete s;
   }
   std::string init(const Toks& t)
   {
      probe = (t[2] == "csp");
      g_raw = 0;
      g_ovf = 0;
      s = new SET(t.size() > 3 ? I(t[3]) : 8);
      return dump();
   }
   std::string dump()
   {
      std::ostringstream o;
      o << "num=" << s->num() << " max=" << s->max() << " size=" << s->size() << " keys=";

      for(int n = 0; n < s->num(); n++)
         o << s->key(n).idx << ",";

      o << " elems=";

      for(int n = 0; n < s->num(); n++)
         o << val((*s)[n]) << ",";

      o << " slots=";

      for(int i = 0; i < s->size(); i++)
      {
         DataKey k(0, i);

         if(s->has(k))
            o << s->number(k) << ",";
         else
            o << "x,";
      }

      o << " bykey=";

      for(int i = 0; i < s->size(); i++)
      {
         DataKey k(0, i);

         if(s->has(k))
            o << val((*s)[k]) << ",";
         else
            o << "x,";
      }

      // internal: the free list (bounded walk)
      o << " free=";
      int f = s->firstfree, c;

      for(c = 0; c <= s->size() && f != -s->themax - 1; c++)
      {
         int i = -1 - f;
         o << i << ",";

         if(i < 0 || i >= s->themax)
         {
            o << "!";
            dead = true;
            break;
         }

         f = s->theitem[i].info;
      }

      if(!dead && f != -s->themax - 1)
      {
         o << "~";      // the list does not end within size()+1 links
         dead = true;
      }

      if(probe)
         o << " raw=" << g_raw << " ovf=" << soplex::guardDamage();

      return o.str();
   }
   static std::string list(const char* tag, const int* a, int n)
   {
      std::ostringstream o;
      o << tag;

      for(int i = 0; i < n; i++)
         o << a[i] << ",";

      return o.str();
   }
   std::string op(const Toks& t)
   {
      const std::string& c = t[0];
      std::string ret = "-";

      if(dead)
         return c + " ret=dead";

      if(c == "add")
      {
         if(s->num() < s->max())
         {
            DataKey k;
            s->add(k, E(I(t[1])));
            ret = "key:" + std::to_string(k.idx);
         }
         else
            ret = "skip";
      }
      else if(c == "addn")
      {
         int n = (int)t.size() - 1;

         if(s->num() + n <= s->max())
         {
            std::vector<E> items;
            std::vector<DataKey> ks(n + 1);

            for(int i = 0; i < n; i++)
               items.push_back(E(I(t[1 + i])));

            s->add(ks.data(), items.data(), n);
            std::vector<int> ki;

            for(int i = 0; i < n; i++)
               ki.push_back(ks[i].idx);

            ret = list("keys:", ki.data(), n);
         }
         else
            ret = "skip";
      }
      else if(c == "rm")
         s->remove(I(t[1]));
      else if(c == "rmk")
      {
         try
         {
            s->remove(DataKey(0, I(t[1])));
         }
         catch(const SPxException&)
         {
            ret = "exc";
         }
      }
      else if(c == "rmp")
      {
         int n = s->num();
         std::vector<int> perm(n + 1, 0);

         for(int k = 0; k < n; k++)
            perm[k] = (k + 1 < (int)t.size()) ? I(t[1 + k]) : 0;

         s->remove(perm.data());
         ret = list("perm:", perm.data(), n);
      }
      else if(c == "rmn")
      {
         int n = (int)t.size() - 1, num = s->num();
         std::vector<int> nums;
         bool ok = true;

         for(int i = 0; i < n; i++)
         {
            nums.push_back(I(t[1 + i]));
            ok = ok && s->has(nums.back());
         }

         if(ok)
         {
            std::vector<int> perm(num + 1, 0);
            s->remove(nums.data(), n, perm.data());
            ret = list("perm:", perm.data(), num);
         }
         else
            ret = "skip";
      }
      else if(c == "rmkn")
      {
         int n = (int)t.size() - 1, num = s->num();
         std::vector<DataKey> ks;
         bool ok = true;

         for(int i = 0; i < n; i++)
         {
            int k = I(t[1 + i]);
            ks.push_back(DataKey(0, k));
            ok = ok && k >= 0 && k < s->size() && s->has(ks.back());
         }

         if(ok)
         {
            std::vector<int> perm(num + 1, 0);
            s->remove(ks.data(), n, perm.data());
            ret = list("perm:", perm.data(), num);
         }
         else
            ret = "skip";
      }
      else if(c == "clear")
         s->clear();
      else if(c == "remax")
         s->reMax(I(t[1]));
      else if(c == "set")
      {
         if(s->has(I(t[1])))
            (*s)[I(t[1])] = E(I(t[2]));
      }
      else if(c == "copy")
      {
         SET* n = new SET(*s);
         delete s;
         s = n;
      }
      else if(c == "assign")
      {
         SET* n = new SET(I(t[1]));
         *n = *s;
         delete s;
         s = n;
      }
      else
         ret = "unknown";

      return c + " ret=" + ret + " " + dump();
   }
};

// ---------------------------------------------------------------------------------------------------------
// exact values: rationals are exchanged as "num/den" (den > 0, reduced); doubles are converted exactly
// ---------------------------------------------------------------------------------------------------------
static std::string qs(const Rational& r)
{
   std::ostringstream o;
   o << numerator(r) << "/" << denominator(r);
   return o.str();
}
static std::string qs(double x)
{
   if(x != x || std::isinf(x))
      return x != x ? "nan" : (x > 0 ? "inf" : "-inf");

   return qs(Rational(x));
}
template <class R> static R qv(const std::string& t);
template <> double qv<double>(const std::string& t)
{
   size_t c = t.find('/');
   double n = atof(t.substr(0, c).c_str());
   double d = (c == std::string::npos) ? 1.0 : atof(t.substr(c + 1).c_str());
   return n / d;
}
template <> Rational qv<Rational>(const std::string& t)
{
   size_t c = t.find('/');
   Rational n(atol(t.substr(0, c).c_str()));
   Rational d((c == std::string::npos) ? 1L : atol(t.substr(c + 1).c_str()));
   return n / d;
}
template <class R>
static std::string svs(const SVectorBase<R>& v)
{
   std::ostringstream o;

   for(int k = 0; k < v.size(); k++)
      o << v.index(k) << ":" << qs(v.value(k)) << ";";

   return o.str();
}

// ---------------------------------------------------------------------------------------------------------
// vectors: a small register machine  D0 D1 (VectorBase)  S0 S1 (DSVectorBase)  X0 X1 (SSVectorBase)
// ---------------------------------------------------------------------------------------------------------
template <class R>
struct VecMachine
{
   std::vector<VectorBase<R>> D;
   std::vector<DSVectorBase<R>> S;
   std::vector<std::unique_ptr<SSVectorBase<R>>> X;
   std::shared_ptr<Tolerances> tol;

   std::string dump()
   {
      std::ostringstream o;

      for(size_t r = 0; r < D.size(); r++)
      {
         o << "D" << r << "=";

         for(int i = 0; i < D[r].dim(); i++)
            o << qs(D[r][i]) << ",";

         o << " ";
      }

      for(size_t r = 0; r < S.size(); r++)
         o << "S" << r << "=" << svs(S[r]) << " ";

      for(size_t r = 0; r < X.size(); r++)
      {
         SSVectorBase<R>& x = *X[r];
         o << "X" << r << "=" << (x.isSetup() ? "S" : "U") << ":";

         for(int i = 0; i < x.dim(); i++)
            o << qs(x[i]) << ",";

         o << ":";

         if(x.isSetup())
            for(int k = 0; k < x.size(); k++)
               o << x.index(k) << ",";

         o << " ";
      }

      return o.str();
   }
   std::string init(const Toks& t)
   {
      int n = t.size() > 3 ? I(t[3]) : 4;
      tol = std::make_shared<Tolerances>();
      D.clear();
      S.clear();
      X.clear();

      for(int r = 0; r < 2; r++)
      {
         D.push_back(VectorBase<R>(n));
         D.back().clear();
         S.push_back(DSVectorBase<R>(2));
         X.emplace_back(new SSVectorBase<R>(n, tol));
      }

      return dump();
   }
   static bool sortedStrict(const SVectorBase<R>& v)
   {
      for(int k = 1; k < v.size(); k++)
         if(v.index(k - 1) >= v.index(k))
            return false;

      return true;
   }
   static bool noDup(const SVectorBase<R>& v)
   {
      for(int k = 0; k < v.size(); k++)
         for(int j = 0; j < k; j++)
            if(v.index(j) == v.index(k))
               return false;

      return true;
   }
   static bool inDim(const SVectorBase<R>& v, int n)
   {
      for(int k = 0; k < v.size(); k++)
         if(v.index(k) < 0 || v.index(k) >= n)
            return false;

      return true;
   }
   std::string op(const Toks& t)
   {
      const std::string& c = t[0];
      std::string ret = "-";
      auto reg = [&](size_t k)
      {
         return (size_t)(t[k][1] - '0');
      };
      auto val = [&](size_t k)
      {
         return qv<R>(t[k]);
      };
#define SKIP { return c + " ret=skip " + dump(); }

      // ---- dense
      if(c == "dset")
      {
         VectorBase<R>& d = D[reg(1)];
         int i = I(t[2]);

         if(i < 0 || i >= d.dim()) SKIP
            d[i] = val(3);
      }
      else if(c == "dclear") D[reg(1)].clear();
      else if(c == "dadd" || c == "dsub" || c == "ddot" || c == "dmadd")
      {
         VectorBase<R>& d = D[reg(1)];
         VectorBase<R>& e = D[reg(c == "dmadd" ? 3 : 2)];

         if(d.dim() != e.dim()) SKIP
            if(c == "dadd") d += e;
            else if(c == "dsub") d -= e;
            else if(c == "ddot") ret = qs(R(d * e));
            else d.multAdd(val(2), e);
      }
      else if(c == "dscale") D[reg(1)] *= val(2);
      else if(c == "dmaxabs")
      {
         if(D[reg(1)].dim() <= 0) SKIP
            ret = qs(R(D[reg(1)].maxAbs()));
      }

#ifdef C19_PROBE_MINABS
      // VectorBase<R>::minAbs() is only instantiated in the compile probe of checks/C19.py
      else if(c == "dminabs")
      {
         if(D[reg(1)].dim() <= 0) SKIP
            ret = qs(R(D[reg(1)].minAbs()));
      }

#endif
      else if(c == "dlen2") ret = qs(R(D[reg(1)].length2()));
      else if(c == "dredim")
      {
         if(I(t[2]) < 0) SKIP
            D[reg(1)].reDim(I(t[2]));
      }
      else if(c == "daddsv" || c == "dsubsv" || c == "dassignsv" || c == "dsetsv" || c == "ddotsv" || c == "sdotd")
      {
         VectorBase<R>& d = D[reg(c == "sdotd" ? 2 : 1)];
         SVectorBase<R>& v = S[reg(c == "sdotd" ? 1 : 2)];

         if(!inDim(v, d.dim())) SKIP
            if(c == "daddsv") d += v;
            else if(c == "dsubsv") d -= v;
            else if(c == "dassignsv") d.assign(v);
            else if(c == "dsetsv") d = v;
            else if(c == "ddotsv") ret = qs(R(d * v));
            else ret = qs(R(v * d));
      }
      else if(c == "dmaddsv" || c == "dmsubsv")
      {
         VectorBase<R>& d = D[reg(1)];
         SVectorBase<R>& v = S[reg(3)];

         if(!inDim(v, d.dim())) SKIP
            if(c == "dmaddsv") d.multAdd(val(2), v);
            else d.multSub(val(2), v);
      }
      else if(c == "daddss" || c == "dsubss" || c == "ddotss" || c == "dsetss" || c == "dassignss")
      {
         VectorBase<R>& d = D[reg(1)];
         SSVectorBase<R>& x = *X[reg(2)];

         if(d.dim() != x.dim() || (c == "dassignss" && !x.isSetup())) SKIP
            if(c == "daddss") d += x;
            else if(c == "dsubss") d -= x;
            else if(c == "ddotss") ret = qs(R(d * x));
            else if(c == "dsetss") d = x;
            else d.assign(x);
      }
      else if(c == "dmaddss")
      {
         VectorBase<R>& d = D[reg(1)];
         SSVectorBase<R>& x = *X[reg(3)];

         if(d.dim() != x.dim()) SKIP
            d.multAdd(val(2), x);
      }
      // ---- sparse
      else if(c == "sadd")
      {
         if(I(t[2]) < 0) SKIP
            S[reg(1)].add(I(t[2]), val(3));
      }
      else if(c == "saddn")
      {
         std::vector<int> ix;
         std::vector<R> vs;

         for(size_t k = 2; k + 1 < t.size(); k += 2)
         {
            ix.push_back(I(t[k]));
            vs.push_back(val(k + 1));
         }

         S[reg(1)].add((int)ix.size(), ix.data(), vs.data());
      }
      else if(c == "srm")
      {
         if(I(t[2]) < 0 || I(t[2]) >= S[reg(1)].size()) SKIP
            S[reg(1)].remove(I(t[2]));
      }
      else if(c == "srmr" || c == "srmrs")
      {
         // srmrs: only ranges that do not reach the last non-zero
         int n = I(t[2]), m = I(t[3]);

         if(!(0 <= n && n <= m && m < S[reg(1)].size()) || (c == "srmrs" && m >= S[reg(1)].size() - 1)) SKIP
            S[reg(1)].remove(n, m);
      }
      else if(c == "sclear") S[reg(1)].clear();
      else if(c == "sscale")
      {
         if(val(2) == 0) SKIP
            S[reg(1)] *= val(2);
      }
      else if(c == "ssort") S[reg(1)].sort();
      else if(c == "sassign")
      {
         if(reg(1) == reg(2)) SKIP
            S[reg(1)] = S[reg(2)];
      }
      else if(c == "sappend")
      {
         // DSVectorBase::add(const SVectorBase&): "Append nonzeros of sv"
         if(reg(1) == reg(2)) SKIP
            S[reg(1)].add(static_cast<const SVectorBase<R>&>(S[reg(2)]));
      }
      else if(c == "sfromd") S[reg(1)] = D[reg(2)];
      else if(c == "sfromss")
      {
         if(!X[reg(2)]->isSetup()) SKIP
            S[reg(1)] = *X[reg(2)];
      }
      else if(c == "sdot")
      {
         if(!sortedStrict(S[reg(1)]) || !sortedStrict(S[reg(2)])) SKIP
            ret = qs(R(S[reg(1)] * S[reg(2)]));
      }
      else if(c == "smaxabs") ret = qs(R(S[reg(1)].maxAbs()));
      else if(c == "sminabs")
      {
         if(S[reg(1)].size() == 0) SKIP
            ret = qs(R(S[reg(1)].minAbs()));
      }
      else if(c == "slen2") ret = qs(R(S[reg(1)].length2()));
      else if(c == "sdim") ret = std::to_string(S[reg(1)].dim());
      else if(c == "spos") ret = std::to_string(S[reg(1)].pos(I(t[2])));
      else if(c == "sget") ret = qs(R(S[reg(1)][I(t[2])]));
      else if(c == "stimes")
      {
         if(reg(1) == reg(2)) SKIP
            S[reg(1)] = S[reg(2)] * val(3);
      }
      else if(c == "sunit")
      {
         if(I(t[2]) < 0) SKIP
            UnitVectorBase<R> u(I(t[2]));

         S[reg(1)] = static_cast<const SVectorBase<R>&>(u);
      }
      // ---- semi-sparse
      else if(c == "xset")
      {
         SSVectorBase<R>& x = *X[reg(1)];

         if(I(t[2]) < 0 || I(t[2]) >= x.dim()) SKIP
            x.setValue(I(t[2]), val(3));
      }
      else if(c == "xadd")
      {
         SSVectorBase<R>& x = *X[reg(1)];
         int i = I(t[2]);

         if(i < 0 || i >= x.dim() || !x.isSetup() || x[i] != 0 || x.pos(i) >= 0) SKIP
            x.add(i, val(3));
      }
      else if(c == "xclearidx")
      {
         SSVectorBase<R>& x = *X[reg(1)];

         if(I(t[2]) < 0 || I(t[2]) >= x.dim()) SKIP
            x.clearIdx(I(t[2]));
      }
      else if(c == "xclearnum")
      {
         SSVectorBase<R>& x = *X[reg(1)];

         if(!x.isSetup() || I(t[2]) < 0 || I(t[2]) >= x.size()) SKIP
            x.clearNum(I(t[2]));
      }
      else if(c == "xclear") X[reg(1)]->clear();
      else if(c == "xsetup") X[reg(1)]->setup();
      else if(c == "xunsetup") X[reg(1)]->unSetup();
      else if(c == "xscale")
      {
         if(!X[reg(1)]->isSetup() || val(2) == 0) SKIP
            (*X[reg(1)]) *= val(2);
      }
      else if(c == "xadddv" || c == "xsubdv" || c == "xmadddv")
      {
         SSVectorBase<R>& x = *X[reg(1)];
         VectorBase<R>& d = D[reg(c == "xmadddv" ? 3 : 2)];

         if(x.dim() != d.dim()) SKIP
            if(c == "xadddv") x += d;
            else if(c == "xsubdv") x -= d;
            else x.multAdd(val(2), d);
      }
      else if(c == "xaddsv" || c == "xsubsv" || c == "xsetsv" || c == "xmaddsv")
      {
         SSVectorBase<R>& x = *X[reg(1)];
         SVectorBase<R>& v = S[reg(c == "xmaddsv" ? 3 : 2)];

         // assignment and multAdd need a sparse operand without repeated indices (the index array has dim+1 entries,
         // multAdd marks cancelled entries with SOPLEX_VECTOR_MARKER)
         // multAdd on a set-up vector relies on "non-zero value => indexed" (setValue(i, tiny) can break that)
         bool indexed = true;

         if(c == "xmaddsv" && x.isSetup())
            for(int i = 0; i < x.dim(); i++)
               indexed = indexed && (x[i] == 0 || x.pos(i) >= 0);

         if(!inDim(v, x.dim()) || ((c == "xsetsv" || c == "xmaddsv") && !noDup(v)) || !indexed) SKIP
            if(c == "xaddsv") x += v;
            else if(c == "xsubsv") x -= v;
            else if(c == "xsetsv") x = v;
            else x.multAdd(val(2), v);
      }
      else if(c == "xaddss" || c == "xsubss" || c == "xdot" || c == "xassign")
      {
         SSVectorBase<R>& x = *X[reg(1)];
         SSVectorBase<R>& y = *X[reg(2)];

         if(reg(1) == reg(2) || x.dim() != y.dim() || (c != "xsubss" && c != "xassign" && !y.isSetup())) SKIP
            if(c == "xaddss") x += y;
            else if(c == "xsubss") x -= y;
            else if(c == "xdot") ret = qs(R(x * y));
            else x = y;
      }
      else if(c == "xredim")
      {
         if(I(t[2]) < 1) SKIP
            X[reg(1)]->reDim(I(t[2]));
      }
      else
         ret = "unknown";

#undef SKIP
      return c + " ret=" + ret + " " + dump();
   }
};

// ---------------------------------------------------------------------------------------------------------
// SVSet<double>, LPRowSet<double>, LPColSet<double>: keys / numbers like DataSet, elements are vectors
// (+ three scalars for rows and columns); the nonzero arena is exercised through add2 / xtend / memPack / memRemax
// ---------------------------------------------------------------------------------------------------------
struct SvsAcc
{
   typedef SVSetBase<double> Set;
   static const int nscal = 0;
   static void add(Set& s, DataKey& k, const double*, const DSVectorBase<double>& v)
   {
      s.add(k, v);
   }
   static double scal(const Set&, int, int)
   {
      return 0;
   }
   static void setScal(Set&, int, int, double) {}
   static const SVectorBase<double>& vec(const Set& s, int n)
   {
      return s[n];
   }
   static SVSetBase<double>& base(Set& s)
   {
      return s;
   }
   static void add2(Set& s, int n, int cnt, const int* ix, const double* v)
   {
      s.add2(s[n], cnt, ix, v);
   }
   static void xtend(Set& s, int n, int m)
   {
      s.xtend(s[n], m);
   }
   static void removeNums(Set& s, const int* nums, int n, int* perm)
   {
      s.remove(nums, n, perm);
   }
   static void addSet(Set& s, DataKey* keys, const Set& t)
   {
      s.add(keys, t);
   }
};
struct RowAcc
{
   typedef LPRowSetBase<double> Set;
   static const int nscal = 3;
   static void add(Set& s, DataKey& k, const double* sc, const DSVectorBase<double>& v)
   {
      s.add(k, sc[0], v, sc[1], sc[2]);
   }
   static double scal(const Set& s, int n, int j)
   {
      return j == 0 ? s.lhs(n) : (j == 1 ? s.rhs(n) : s.obj(n));
   }
   static void setScal(Set& s, int n, int j, double v)
   {
      if(j == 0) s.lhs_w(n) = v;
      else if(j == 1) s.rhs_w(n) = v;
      else s.obj_w(n) = v;
   }
   static const SVectorBase<double>& vec(const Set& s, int n)
   {
      return s.rowVector(n);
   }
   static SVSetBase<double>& base(Set& s)
   {
      return (SVSetBase<double>&)s;      // private base class
   }
   static void add2(Set& s, int n, int cnt, const int* ix, const double* v)
   {
      s.add2(n, cnt, ix, v);
   }
   static void xtend(Set& s, int n, int m)
   {
      s.xtend(n, m);
   }
   static void removeNums(Set& s, const int* nums, int n, int* perm)
   {
      s.remove(nums, n, perm);
   }
   static void addSet(Set& s, DataKey* keys, const Set& t)
   {
      s.add(keys, t);
   }
};
struct ColAcc
{
   typedef LPColSetBase<double> Set;
   static const int nscal = 3;
   static void add(Set& s, DataKey& k, const double* sc, const DSVectorBase<double>& v)
   {
      s.add(k, sc[2], sc[0], v, sc[1]);      // (obj, lower, vector, upper); scalars are [lower, upper, obj]
   }
   static double scal(const Set& s, int n, int j)
   {
      return j == 0 ? s.lower(n) : (j == 1 ? s.upper(n) : s.maxObj(n));
   }
   static void setScal(Set& s, int n, int j, double v)
   {
      if(j == 0) s.lower_w(n) = v;
      else if(j == 1) s.upper_w(n) = v;
      else s.maxObj_w(n) = v;
   }
   static const SVectorBase<double>& vec(const Set& s, int n)
   {
      return s.colVector(n);
   }
   static SVSetBase<double>& base(Set& s)
   {
      return (SVSetBase<double>&)s;      // private base class
   }
   static void add2(Set& s, int n, int cnt, const int* ix, const double* v)
   {
      s.add2(n, cnt, ix, v);
   }
   static void xtend(Set& s, int n, int m)
   {
      s.xtend(n, m);
   }
   static void removeNums(Set& s, const int* nums, int n, int* perm)
   {
      s.remove(nums, n, perm);
   }
   static void addSet(Set& s, DataKey* keys, const Set& t)
   {
      s.add(keys, t);
   }
};

template <class A>
struct VSetMachine
{
   typedef typename A::Set Set;
   Set* s = nullptr;
   ~VSetMachine()
   {
      delete s;
   }
   std::string init(const Toks& t)
   {
      s = new Set(t.size() > 3 ? I(t[3]) : 2, t.size() > 4 ? I(t[4]) : 4);
      return dump();
   }
   std::string dump()
   {
      std::ostringstream o;
      SVSetBase<double>& b = A::base(*s);
      o << "num=" << b.num() << " max=" << b.max() << " keys=";

      for(int n = 0; n < b.num(); n++)
         o << b.key(n).idx << ",";

      o << " slots=";

      for(int i = 0; i < b.set.size(); i++)
      {
         DataKey k(0, i);

         if(b.has(k))
            o << b.number(k) << ",";
         else
            o << "x,";
      }

      o << " vecs=";

      for(int n = 0; n < b.num(); n++)
      {
         for(int j = 0; j < A::nscal; j++)
            o << qs(A::scal(*s, n, j)) << ",";

         o << svs(A::vec(*s, n)) << "|";
      }

      o << " bykey=";

      for(int i = 0; i < b.set.size(); i++)
      {
         DataKey k(0, i);

         if(b.has(k))
            o << svs(b[k]) << "|";
         else
            o << "x|";
      }

      return o.str();
   }
   static std::string list(const char* tag, const int* a, int n)
   {
      std::ostringstream o;
      o << tag;

      for(int i = 0; i < n; i++)
         o << a[i] << ",";

      return o.str();
   }
   // entries "i v i v ..." starting at token k
   static void entries(const Toks& t, size_t k, std::vector<int>& ix, std::vector<double>& vs)
   {
      for(; k + 1 < t.size(); k += 2)
      {
         ix.push_back(I(t[k]));
         vs.push_back(qv<double>(t[k + 1]));
      }
   }
   std::string op(const Toks& t)
   {
      const std::string& c = t[0];
      std::string ret = "-";
      SVSetBase<double>& b = A::base(*s);

      if(c == "add")
      {
         double sc[3] = {0, 0, 0};
         size_t k = 1;

         for(int j = 0; j < A::nscal; j++)
            sc[j] = qv<double>(t[k++]);

         std::vector<int> ix;
         std::vector<double> vs;
         entries(t, k, ix, vs);
         DSVectorBase<double> v((int)ix.size() + 1);

         for(size_t e = 0; e < ix.size(); e++)
         {
            // DSVector::add(i, v) drops zeros; the set's assignment drops them as well
            v.add(ix[e], vs[e]);
         }

         DataKey key;
         A::add(*s, key, sc, v);
         ret = "key:" + std::to_string(key.idx);
      }
      else if(c == "addself")
      {
         // add(keys[], set) with a second set holding the same vectors (built vector by vector)
         int n = b.num();
         Set tmp(2, 2);

         for(int i = 0; i < n; i++)
         {
            double sc[3] = {0, 0, 0};

            for(int j = 0; j < A::nscal; j++)
               sc[j] = A::scal(*s, i, j);

            DSVectorBase<double> v(A::vec(*s, i).size() + 1);
            v = A::vec(*s, i);
            DataKey k;
            A::add(tmp, k, sc, v);
         }

         std::vector<DataKey> keys(n + 1);
         A::addSet(*s, keys.data(), tmp);
         std::vector<int> ki;

         for(int i = 0; i < n; i++)
            ki.push_back(keys[i].idx);

         ret = list("keys:", ki.data(), n);
      }
      else if(c == "add2")
      {
         int n = I(t[1]);

         if(!b.has(n))
            ret = "skip";
         else
         {
            std::vector<int> ix;
            std::vector<double> vs;
            entries(t, 2, ix, vs);
            A::add2(*s, n, (int)ix.size(), ix.data(), vs.data());
         }
      }
      else if(c == "xtend")
      {
         int n = I(t[1]);

         if(!b.has(n) || I(t[2]) < 0)
            ret = "skip";
         else
            A::xtend(*s, n, I(t[2]));
      }
      else if(c == "setscal")
      {
         int n = I(t[1]);

         if(!b.has(n) || I(t[2]) >= A::nscal)
            ret = "skip";
         else
            A::setScal(*s, n, I(t[2]), qv<double>(t[3]));
      }
      else if(c == "rm")
      {
         if(!b.has(I(t[1])))
            ret = "skip";
         else
            s->remove(I(t[1]));
      }
      else if(c == "rmk")
      {
         int k = I(t[1]);

         if(k < 0 || k >= b.set.size() || !b.has(DataKey(0, k)))
            ret = "skip";
         else
            s->remove(DataKey(0, k));
      }
      else if(c == "rmp")
      {
         int n = b.num();
         std::vector<int> perm(n + 1, 0);

         for(int k = 0; k < n; k++)
            perm[k] = (k + 1 < (int)t.size()) ? I(t[1 + k]) : 0;

         s->remove(perm.data());
         ret = list("perm:", perm.data(), n);
      }
      else if(c == "rmn")
      {
         int n = (int)t.size() - 1, num = b.num();
         std::vector<int> nums;
         bool ok = true;

         for(int i = 0; i < n; i++)
         {
            nums.push_back(I(t[1 + i]));
            ok = ok && b.has(nums.back());
         }

         if(ok)
         {
            std::vector<int> perm(num + 1, 0);
            A::removeNums(*s, nums.data(), n, perm.data());
            ret = list("perm:", perm.data(), num);
         }
         else
            ret = "skip";
      }
      else if(c == "clear")
         s->clear();
      else if(c == "remax")
         s->reMax(I(t[1]));
      else if(c == "memremax")
         s->memRemax(I(t[1]));
      else if(c == "mempack")
         s->memPack();
      // copying a set without vectors is not compared: whether its unused slots are copied depends on the state of the
      // nonzero arena, which the model does not have
      else if((c == "copy" || c == "assign") && b.num() == 0)
         ret = "skip";
      else if(c == "copy")
      {
         Set* n = new Set(*s);
         delete s;
         s = n;
      }
      else if(c == "assign")
      {
         Set* n = new Set(I(t[1]), 2);
         *n = *s;
         delete s;
         s = n;
      }
      else
         ret = "unknown";

      return c + " ret=" + ret + " " + dump();
   }
};

// ---------------------------------------------------------------------------------------------------------
// IdxSet (caller's buffer, with one spare int in front) and DIdxSet
// ---------------------------------------------------------------------------------------------------------
struct IdxMachine
{
   bool dyn = false;
   std::vector<int> buf;
   IdxSet* s = nullptr;
   ~IdxMachine()
   {
      delete s;
   }
   std::string init(const Toks& t)
   {
      int m = t.size() > 3 ? I(t[3]) : 4;
      dyn = (t[2] == "didx");

      if(dyn)
         s = new DIdxSet(m);
      else
      {
         buf.assign(m + 2, -77);
         s = new IdxSet(m, buf.data() + 1);
      }

      return dump();
   }
   std::string dump()
   {
      std::ostringstream o;
      o << "size=" << s->size() << " max=" << s->max() << " idx=";

      for(int n = 0; n < s->size(); n++)
         o << s->index(n) << ",";

      o << " dim=" << s->dim() << " pos=";

      for(int i = 0; i < 8; i++)
         o << s->pos(i) << ",";

      if(!dyn)
         o << " under=" << (buf[0] == -77 ? 0 : 1);

      return o.str();
   }
   std::string op(const Toks& t)
   {
      const std::string& c = t[0];
      std::string ret = "-";

      if(c == "addidx")
      {
         if(!dyn && s->size() >= s->max())
            ret = "skip";
         else if(dyn)
            static_cast<DIdxSet*>(s)->addIdx(I(t[1]));
         else
            s->addIdx(I(t[1]));
      }
      else if(c == "addn")
      {
         std::vector<int> v;

         for(size_t k = 1; k < t.size(); k++)
            v.push_back(I(t[k]));

         if(!dyn && s->size() + (int)v.size() > s->max())
            ret = "skip";
         else if(dyn)
            static_cast<DIdxSet*>(s)->add((int)v.size(), v.data());
         else
            s->add((int)v.size(), v.data());
      }
      else if(c == "rm")
      {
         if(I(t[1]) < 0 || I(t[1]) >= s->size())
            ret = "skip";
         else
            s->remove(I(t[1]));
      }
      else if(c == "rmr")
      {
         int n = I(t[1]), m = I(t[2]);

         // for DIdxSet a range ending at the last index with n == 0 would write in front of the heap block
         if(!(0 <= n && n <= m && m < s->size()) || (dyn && n == 0 && m == s->size() - 1))
            ret = "skip";
         else
            s->remove(n, m);
      }
      else if(c == "clear")
         s->clear();
      else if(c == "setmax")
      {
         if(!dyn)
            ret = "skip";
         else
            static_cast<DIdxSet*>(s)->setMax(I(t[1]));
      }
      else if(c == "copy")
      {
         if(!dyn)
            ret = "skip";
         else
         {
            DIdxSet* n = new DIdxSet(*static_cast<DIdxSet*>(s));
            delete s;
            s = n;
         }
      }
      else if(c == "assign")
      {
         if(!dyn)
            ret = "skip";
         else
         {
            DIdxSet* n = new DIdxSet(I(t[1]));
            *n = *static_cast<DIdxSet*>(s);
            delete s;
            s = n;
         }
      }
      else
         ret = "unknown";

      return c + " ret=" + ret + " " + dump();
   }
};

// ---------------------------------------------------------------------------------------------------------
// NameSet: the name with identifier id (0..11) has id+1 characters ('a' + id % 3), so that names of different
// lengths move through the string memory; every string read back is printed as it is (sanitised)
// ---------------------------------------------------------------------------------------------------------
struct NameMachine
{
   static const int NIDS = 12;
   NameSet* s = nullptr;
   ~NameMachine()
   {
      delete s;
   }
   static std::string nm(int id)
   {
      return std::string((size_t)(id + 1), (char)('a' + id % 3));
   }
   static std::string show(const char* p)
   {
      std::string o;

      for(int k = 0; p[k] != '\0' && k < 40; k++)
         o.push_back((p[k] >= 'a' && p[k] <= 'z') ? p[k] : '?');

      return o.empty() ? "_" : o;
   }
   std::string init(const Toks& t)
   {
      s = new NameSet(t.size() > 3 ? I(t[3]) : 2, t.size() > 4 ? I(t[4]) : 8);
      return dump();
   }
   std::string dump()
   {
      std::ostringstream o;
      o << "num=" << s->num() << " max=" << s->max() << " size=" << s->size() << " mem=" << s->memSize() << "/" << s->memMax()
        << " names=";

      for(int n = 0; n < s->num(); n++)
         o << show((*s)[n]) << ",";

      o << " keys=";

      for(int n = 0; n < s->num(); n++)
         o << s->key(n).idx << ",";

      // by key: every slot of the key array
      o << " bykey=";

      for(int i = 0; i < s->size(); i++)
      {
         DataKey k(0, i);

         if(s->has(k))
            o << s->number(k) << ":" << show((*s)[k]) << ",";
         else
            o << "x,";
      }

      // by name: every name ever used
      o << " look=";

      for(int id = 0; id < NIDS; id++)
      {
         std::string name = nm(id);

         if(s->has(name.c_str()))
         {
            DataKey k = s->key(name.c_str());
            o << s->number(name.c_str()) << ":" << k.idx << ":" << show((*s)[k]) << ",";
         }
         else
            o << "-:" << s->number(name.c_str()) << ":" << s->key(name.c_str()).idx << ",";
      }

      return o.str();
   }
   std::string op(const Toks& t)
   {
      const std::string& c = t[0];
      std::string ret = "-";

      if(c == "add")
      {
         DataKey k;
         s->add(k, nm(I(t[1])).c_str());
         ret = k.isValid() ? "key:" + std::to_string(k.idx) : "none";
      }
      else if(c == "rmname")
         s->remove(nm(I(t[1])).c_str());
      else if(c == "rmnum")
      {
         if(!s->has(I(t[1])))
            ret = "skip";
         else
            s->remove(I(t[1]));
      }
      else if(c == "rmkey")
      {
         int k = I(t[1]);

         if(k < 0 || k >= s->size() || !s->has(DataKey(0, k)))
            ret = "skip";
         else
            s->remove(DataKey(0, k));
      }
      else if(c == "rmnums" || c == "rmkeys")
      {
         std::vector<int> v;
         std::vector<DataKey> ks;
         bool ok = true;

         for(size_t i = 1; i < t.size(); i++)
         {
            int x = I(t[i]);
            ok = ok && std::find(v.begin(), v.end(), x) == v.end();
            v.push_back(x);

            if(c == "rmnums")
               ok = ok && s->has(x);
            else
            {
               ok = ok && x >= 0 && x < s->size() && s->has(DataKey(0, x));
               ks.push_back(DataKey(0, x));
            }
         }

         if(!ok)
            ret = "skip";
         else if(c == "rmnums")
            s->remove(v.data(), (int)v.size());
         else
            s->remove(ks.data(), (int)ks.size());
      }
      else if(c == "rmp")
      {
         int n = s->num();
         std::vector<int> perm(n + 1, 0);

         for(int k = 0; k < n; k++)
            perm[k] = (k + 1 < (int)t.size()) ? I(t[1 + k]) : 0;

         s->remove(perm.data());
         std::ostringstream o;
         o << "perm:";

         for(int k = 0; k < n; k++)
            o << perm[k] << ",";

         ret = o.str();
      }
      else if(c == "clear")
         s->clear();
      else if(c == "remax")
         s->reMax(I(t[1]));
      else if(c == "memremax")
         s->memRemax(I(t[1]));
      else if(c == "mempack")
         s->memPack();
      else
         ret = "unknown";

      return c + " ret=" + ret + " " + dump();
   }
};

// ---------------------------------------------------------------------------------------------------------
// DataHashTable<int,int>
// ---------------------------------------------------------------------------------------------------------
static int intHash(const int* k)
{
   return (*k + 2) * 7 + 3;  // non-negative for the keys -2..7 used here (the table indexes with hash % size)
}
struct HashMachine
{
   DataHashTable<int, int>* h = nullptr;
   ~HashMachine()
   {
      delete h;
   }
   std::string init(const Toks& t)
   {
      h = new DataHashTable<int, int>(intHash, t.size() > 3 ? I(t[3]) : 3, t.size() > 4 ? I(t[4]) : 0);
      return dump();
   }
   std::string dump()
   {
      std::ostringstream o;
      o << "look=";

      for(int k = -2; k < 8; k++)
      {
         if(h->has(k))
            o << *h->get(k) << ",";
         else
            o << (h->get(k) == nullptr ? "-," : "?,");
      }

      return o.str();
   }
   std::string op(const Toks& t)
   {
      const std::string& c = t[0];
      std::string ret = "-";

      if(c == "add")
      {
         if(h->has(I(t[1])))
            ret = "skip";
         else
            h->add(I(t[1]), I(t[2]));
      }
      else if(c == "rm")
         h->remove(I(t[1]));
      else if(c == "clear")
         h->clear();
      else if(c == "remax")
         h->reMax(I(t[1]), t.size() > 2 ? I(t[2]) : 0);
      else if(c == "copy")
      {
         DataHashTable<int, int>* n = new DataHashTable<int, int>(*h);
         delete h;
         h = n;
      }
      else if(c == "assign")
      {
         DataHashTable<int, int>* n = new DataHashTable<int, int>(intHash, 2);
         *n = *h;
         delete h;
         h = n;
      }
      else
         ret = "unknown";

      return c + " ret=" + ret + " " + dump();
   }
};

// ---------------------------------------------------------------------------------------------------------
// DataArray<int>, Array<Elem>, ClassArray<Elem>
// ---------------------------------------------------------------------------------------------------------
template <class ARR, class E, int KIND>      // KIND 0 DataArray, 1 Array, 2 ClassArray
struct ArrMachine
{
   ARR* a = nullptr;
   ~ArrMachine()
   {
      delete a;
   }
   std::string init(const Toks& t)
   {
      a = new ARR(0);
      return dump();
   }
   std::string dump()
   {
      std::ostringstream o;
      // capok: the storage holds at least size() elements (elements are only read if it does)
      bool capok = capOk();
      o << "size=" << a->size() << " capok=" << (capok ? 1 : 0) << " elems=";

      for(int i = 0; capok && i < a->size(); i++)
         o << val((*a)[i]) << ",";

      return o.str();
   }
   std::string op(const Toks& t)
   {
      const std::string& c = t[0];
      std::string ret = "-";
      std::vector<E> xs;

      if(c == "append")
         a->append(E(I(t[1])));
      else if(c == "appendn")
      {
         for(size_t k = 1; k < t.size(); k++)
            xs.push_back(E(I(t[k])));

         a->append((int)xs.size(), xs.data());
      }
      else if(c == "insert")
      {
         int i = I(t[1]);

         for(size_t k = 2; k < t.size(); k++)
            xs.push_back(E(I(t[k])));

         if(i < 0 || i > a->size())
            ret = "skip";
         else
            a->insert(i, (int)xs.size(), xs.data());
      }
      else if(c == "remove")
      {
         int n = I(t[1]), m = I(t[2]);

         // ClassArray::remove requires n + m <= size(); DataArray and Array remove fewer elements at the end
         if(n < 0 || n >= a->size() || m < 0 || (KIND == 2 && n + m > a->size()))
            ret = "skip";
         else
            a->remove(n, m);
      }
      else if(c == "removelast")
         ret = removeLast(I(t[1]));
      else if(c == "clear")
         a->clear();
      else if(c == "resize")
      {
         int n = I(t[1]), old = a->size();

         if(n < 0)
            ret = "skip";
         else
         {
            a->reSize(n);

            for(int i = old; i < n; i++)
               (*a)[i] = E(0);
         }
      }
      else if(c == "remax" || c == "remaxs")
      {
         // remaxs: only values that are not below size()
         if(c == "remaxs" && I(t[1]) < a->size())
            ret = "skip";
         else
            ret = reMax(I(t[1]));
      }
      else if(c == "copy")
      {
         ARR* n = new ARR(*a);
         delete a;
         a = n;
      }
      else if(c == "assign")
      {
         ARR* n = new ARR(I(t[1]) < 0 ? 0 : I(t[1]));

         for(int i = 0; i < n->size(); i++)
            (*n)[i] = E(0);

         *n = *a;
         delete a;
         a = n;
      }
      else
         ret = "unknown";

      return c + " ret=" + ret + " " + dump();
   }
   template <int K = KIND> typename std::enable_if<K == 1, bool>::type capOk()
   {
      return true;
   }
   template <int K = KIND> typename std::enable_if < K != 1, bool >::type capOk()
   {
      return a->max() >= a->size();
   }
   template <int K = KIND> typename std::enable_if<K == 1, std::string>::type removeLast(int)
   {
      return "skip";
   }
   template <int K = KIND> typename std::enable_if < K != 1, std::string >::type removeLast(int m)
   {
      if(m < 0 || m > a->size())
         return "skip";

      a->removeLast(m);
      return "-";
   }
   template <int K = KIND> typename std::enable_if<K == 1, std::string>::type reMax(int)
   {
      return "skip";
   }
   template <int K = KIND> typename std::enable_if < K != 1, std::string >::type reMax(int m)
   {
      a->reMax(m);
      return "-";
   }
};

// ---------------------------------------------------------------------------------------------------------
// IdList / IsList of nodes 0..7
// ---------------------------------------------------------------------------------------------------------
struct IsNode
{
   int id;
   IsNode* nx;
   IsNode() : id(-1), nx(nullptr) {}
   IsNode*& next()
   {
      return nx;
   }
   IsNode* const& next() const
   {
      return nx;
   }
};
struct IdPayload
{
   int id;
   IdPayload() : id(-1) {}
};
typedef IdElement<IdPayload> IdNode;

template <class LIST, class NODE, bool DOUBLY>
struct ListMachine
{
   LIST l;
   NODE nodes[8];
   bool in[8];
   std::string init(const Toks&)
   {
      for(int i = 0; i < 8; i++)
      {
         nodes[i].id = i;
         in[i] = false;
      }

      return dump();
   }
   std::string fwd()
   {
      std::ostringstream o;
      int guard = 0;

      for(NODE* p = l.first(); p && guard < 20; p = l.next(p), guard++)
         o << p->id << ",";

      return o.str();
   }
   template <bool B = DOUBLY> typename std::enable_if<B, std::string>::type bwd()
   {
      std::ostringstream o;
      int guard = 0;

      for(NODE* p = l.last(); p && guard < 20; p = l.prev(p), guard++)
         o << p->id << ",";

      return o.str();
   }
   template <bool B = DOUBLY> typename std::enable_if < !B, std::string >::type bwd()
   {
      return "-";
   }
   std::string dump()
   {
      std::ostringstream o;
      o << "len=" << l.length() << " fwd=" << fwd() << " bwd=" << bwd() << " first=" << (l.first() ? l.first()->id : -1)
        << " last=" << (l.last() ? l.last()->id : -1) << " find=";

      for(int i = 0; i < 8; i++)
         o << (l.find(&nodes[i]) ? 1 : 0);

      return o.str();
   }
   std::string op(const Toks& t)
   {
      const std::string& c = t[0];
      std::string ret = "-";
      int x = t.size() > 1 ? I(t[1]) : 0;
      int y = t.size() > 2 ? I(t[2]) : 0;
      bool okx = x >= 0 && x < 8, oky = y >= 0 && y < 8;

      if(c == "append" || c == "prepend")
      {
         if(!okx || in[x])
            ret = "skip";
         else
         {
            nodes[x].next() = nullptr;

            if(c == "append") l.append(&nodes[x]);
            else l.prepend(&nodes[x]);

            in[x] = true;
         }
      }
      else if(c == "insert")
      {
         if(!okx || !oky || in[x] || !in[y])
            ret = "skip";
         else
         {
            nodes[x].next() = nullptr;
            l.insert(&nodes[x], &nodes[y]);
            in[x] = true;
         }
      }
      else if(c == "remove")
      {
         if(!okx || !in[x])
            ret = "skip";
         else
         {
            l.remove(&nodes[x]);
            in[x] = false;
         }
      }
      else if(c == "removenext")
      {
         if(!okx || !in[x] || l.next(&nodes[x]) == nullptr)
            ret = "skip";
         else
         {
            in[l.next(&nodes[x])->id] = false;
            l.remove_next(&nodes[x]);
         }
      }
      else if(c == "clear")
      {
         l.clear();

         for(int i = 0; i < 8; i++)
            in[i] = false;
      }
      else
         ret = "unknown";

      return c + " ret=" + ret + " " + dump();
   }
};

// ---------------------------------------------------------------------------------------------------------
struct Machine
{
   virtual ~Machine() {}
   virtual std::string init(const Toks& t) = 0;
   virtual std::string op(const Toks& t) = 0;
};
template <class M>
struct Wrap : Machine
{
   M m;
   std::string init(const Toks& t)
   {
      return m.init(t);
   }
   std::string op(const Toks& t)
   {
      return m.op(t);
   }
};

static Machine* make(const std::string& kind)
{
   if(kind == "ds")
      return new Wrap<SetMachine<DataSet<int>, int>>();

   if(kind == "cs" || kind == "csp")
      return new Wrap<SetMachine<ClassSet<Elem>, Elem>>();

   if(kind == "vecd")
      return new Wrap<VecMachine<double>>();

   if(kind == "vecr")
      return new Wrap<VecMachine<Rational>>();

   if(kind == "svs")
      return new Wrap<VSetMachine<SvsAcc>>();

   if(kind == "lprs")
      return new Wrap<VSetMachine<RowAcc>>();

   if(kind == "lpcs")
      return new Wrap<VSetMachine<ColAcc>>();

   if(kind == "idx" || kind == "didx")
      return new Wrap<IdxMachine>();

   if(kind == "ns")
      return new Wrap<NameMachine>();

   if(kind == "ht")
      return new Wrap<HashMachine>();

   if(kind == "da")
      return new Wrap<ArrMachine<DataArray<int>, int, 0>>();

   if(kind == "ar")
      return new Wrap<ArrMachine<Array<Elem>, Elem, 1>>();

   if(kind == "ca")
      return new Wrap<ArrMachine<ClassArray<Elem>, Elem, 2>>();

   if(kind == "isl")
      return new Wrap<ListMachine<IsList<IsNode>, IsNode, false>>();

   if(kind == "idl")
      return new Wrap<ListMachine<IdList<IdNode>, IdNode, true>>();

   return nullptr;
}

// a case that does not finish within a few seconds is reported as a hang (the driver restarts after it)
static void onAlarm(int)
{
   const char* m = "HANG\n";
   ssize_t r = write(1, m, 5);
   (void) r;
   _exit(3);
}

static void runCases(const char* file)
{
   signal(SIGALRM, onAlarm);

   std::ifstream in(file);
   std::string line;
   std::unique_ptr<Machine> m;

   while(std::getline(in, line))
   {
      Toks t = vf::split(line);

      if(t.empty())
         continue;

      if(t[0] == "CASE")
      {
         alarm(5);
         m.reset(make(t[2]));
         printf("CASE %s\n", t[1].c_str());

         if(!m)
         {
            printf("init unknown-kind\n");
            continue;
         }

         printf("init %s\n", m->init(t).c_str());
      }
      else if(m)
         printf("%s\n", m->op(t).c_str());

      fflush(stdout);
   }
}

// ---------------------------------------------------------------------------------------------------------
// DataHashTable at the sizes its own prime table names (and their neighbours): the probing step m_hashsize must not be a
// multiple of the table size, otherwise add() never ends on the first collision.  Each size runs in a child under an alarm.
// ---------------------------------------------------------------------------------------------------------
static int idHash(const int* k)
{
   return *k;
}
static void hashPrimes()
{
   std::vector<int> sizes;
   {
      DataHashTable<int, int> probe(idHash, 4, 0);

      for(int k = 0; k < probe.nprimes && k < 6; k++)
         for(int d = -1; d <= 1; d++)
            sizes.push_back(probe.primes[k] + d);
   }

   for(int sz : sizes)
   {
      fflush(stdout);
      pid_t pid = fork();

      if(pid == 0)
      {
         alarm(20);
         DataHashTable<int, int> h(idHash, sz, 0);
         int msz = h.m_elem.size();
         bool ok = true;

         // keys that collide modulo the table size
         for(int k = 0; k < 40; k++)
         {
            h.add(k, 10 * k);
            h.add(k + msz, 10 * k + 1);
            h.add(k + 2 * msz, 10 * k + 2);
         }

         for(int k = 0; k < 40 && ok; k++)
            ok = h.has(k) && *h.get(k) == 10 * k && h.has(k + msz) && *h.get(k + msz) == 10 * k + 1 && h.has(k + 2 * msz) && *h.get(k + 2 * msz) == 10 * k + 2;

         for(int k = 0; k < 40; k += 2)
            h.remove(k + msz);

         for(int k = 0; k < 40 && ok; k++)
            ok = h.has(k) && (h.has(k + msz) == (k % 2 == 1)) && h.has(k + 2 * msz) && !h.has(k + 3 * msz);

         printf("HASHPRIME %d elems=%d hashsize=%d %s\n", sz, msz, h.m_hashsize, ok ? "ok" : "wrong");
         fflush(stdout);
         _exit(0);
      }

      int st = 0;
      waitpid(pid, &st, 0);

      if(WIFSIGNALED(st))
         printf("HASHPRIME %d %s\n", sz, WTERMSIG(st) == SIGALRM ? "hang" : "crash");
   }
}

// ---------------------------------------------------------------------------------------------------------
// LPColBase / LPRowBase as values: assignment (also chained and to itself) must copy objective, bounds / sides and vector and
// return the target.  Runs in a child under an alarm: an assignment operator without a return statement is undefined behaviour
// (seen as a wild jump at -O1).
// ---------------------------------------------------------------------------------------------------------
static void lpAssign()
{
   fflush(stdout);
   pid_t pid = fork();

   if(pid == 0)
   {
      alarm(20);
      bool ok = true;

      for(int rep = 0; rep < 50 && ok; rep++)
      {
         DSVectorBase<double> v(2);
         v.add(0, 1.0 + rep);
         v.add(3, 2.0);
         v.add(7, -0.5);
         LPColBase<double> a, b, c;
         a = LPColBase<double>(1.5, v, 4.0 + rep, -1.0);
         LPColBase<double>& ra = (b = a);
         c = b = a;
         b = b;
         ok = ok && &ra == &b && a.obj() == 1.5 && b.obj() == 1.5 && c.obj() == 1.5 && b.upper() == 4.0 + rep && c.lower() == -1.0
              && b.colVector().size() == 3 && c.colVector().size() == 3 && c.colVector().index(1) == 3 && c.colVector().value(0) == 1.0 + rep
              && b.colVector().value(2) == -0.5;
         LPRowBase<double> r, q, t;
         r = LPRowBase<double>(-2.0, v, 5.0 + rep);
         LPRowBase<double>& rq = (q = r);
         t = q = r;
         q = q;
         ok = ok && &rq == &q && q.lhs() == -2.0 && t.rhs() == 5.0 + rep && q.rowVector().size() == 3 && t.rowVector().size() == 3
              && t.rowVector().index(2) == 7 && t.rowVector().value(1) == 2.0;
      }

      printf("LPASSIGN %s\n", ok ? "ok" : "wrong");
      fflush(stdout);
      _exit(0);
   }

   int st = 0;
   waitpid(pid, &st, 0);

   if(WIFSIGNALED(st))
      printf("LPASSIGN %s\n", WTERMSIG(st) == SIGALRM ? "hang" : "crash");
}

// ---------------------------------------------------------------------------------------------------------
// SSVectorBase::assign2productShort with a result that fills every position (the index array is full) while further terms hit
// positions already in use: nothing may be written behind the index array.  dim = 14 makes the index array a 56-byte block
// whose end is the heap chunk's end, so that a write behind it is seen by glibc when the vector is freed.
// ---------------------------------------------------------------------------------------------------------
static void a2pShort()
{
   fflush(stdout);
   pid_t pid = fork();

   if(pid == 0)
   {
      alarm(20);
      bool ok = true;

      for(int rep = 0; rep < 200 && ok; rep++)
      {
         const int dim = 14;
         auto tol = std::make_shared<Tolerances>();
         SVSetBase<double> A;
         std::vector<std::vector<double>> dense(dim, std::vector<double>(dim, 0.0));

         for(int k = 0; k < dim; k++)
         {
            DSVectorBase<double> v;

            for(int i = 0; i < dim; i++)
               if((i + k + rep) % 3 != 0 || i == k)
               {
                  double a = 1.0 + ((i * 7 + k * 3 + rep) % 5);
                  v.add(i, a);
                  dense[k][i] = a;
               }

            A.add(v);
         }

         SSVectorBase<double> x(dim, tol), r(dim, tol);
         std::vector<double> want(dim, 0.0);

         for(int k = 0; k < dim; k += 2)
         {
            x.setValue(k, 1.0 + k);

            for(int i = 0; i < dim; i++)
               want[i] += (1.0 + k) * dense[k][i];
         }

         x.setup();
         r.assign2productShort(A, x);

         for(int i = 0; i < dim && ok; i++)
            ok = std::fabs(r[i] - want[i]) <= 1e-9 * (1.0 + std::fabs(want[i]));
      }

      printf("A2PSHORT %s\n", ok ? "ok" : "wrong");
      fflush(stdout);
      _exit(0);
   }

   int st = 0;
   waitpid(pid, &st, 0);

   if(WIFSIGNALED(st))
      printf("A2PSHORT %s\n", WTERMSIG(st) == SIGALRM ? "hang" : "crash");
}

int main(int argc, char** argv)
{
   if(argc >= 2 && !strcmp(argv[1], "a2pshort"))
      a2pShort();
   else if(argc >= 2 && !strcmp(argv[1], "lpassign"))
      lpAssign();
   else if(argc >= 2 && !strcmp(argv[1], "hashprimes"))
      hashPrimes();
   else if(argc >= 3 && !strcmp(argv[1], "run"))
      runCases(argv[2]);
   else
   {
      fprintf(stderr, "usage: C19 run <casefile>\n");
      return 2;
   }

   return 0;
}
