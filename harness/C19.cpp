// C19 harness: command interpreter that executes operation sequences on the real SoPlex containers and
// vector classes and prints every observable after each step, in the text format of extract/C19/driver.ml.
// Compiled against /repo/src on every tree state (vlib.build_harness); private members are reachable
// (-fno-access-control) and are used only to print internal state (free lists) next to the public observables.
//
// case file:   CASE <id> <kind> <args...>     followed by one operation per line
// output:      CASE <id>  /  init <state>  /  <op> ret=<result> <state>
#include "soplex.h"
#include "common.hpp"
#include <fstream>
#include <algorithm>
#include <memory>
#include <csignal>
#include <unistd.h>

using namespace soplex;

typedef std::vector<std::string> Toks;
static int I(const std::string& s)
{
   return atoi(s.c_str());
}

// ---------------------------------------------------------------------------------------------------------
// element type for ClassSet / ClassArray / Array: a class with user-provided copy operations that remembers
// whether it was constructed.  Assigning to an object that was never constructed (raw malloc memory) is
// counted instead of crashing; the item array of ClassSet<Elem> is allocated through the two overloads below
// (found by argument dependent lookup from the unchanged ClassSet code) which fill fresh memory with a fixed
// pattern and put a guard zone behind the array, so that writes past the end are counted instead of
// corrupting the heap.  The counters are printed only by the probe kind "csp".
// ---------------------------------------------------------------------------------------------------------
static long g_raw = 0;       // assignments whose target was never constructed
static long g_ovf = 0;       // item arrays freed with a damaged guard zone
struct Elem
{
   int v;
   unsigned magic;
   Elem() : v(0), magic(0xC0FFEE01u) {}
   Elem(int x) : v(x), magic(0xC0FFEE01u) {}
   Elem(const Elem& o) : v(o.v), magic(0xC0FFEE01u) {}
   Elem& operator=(const Elem& o)
   {
      if(magic != 0xC0FFEE01u)
      {
         g_raw++;
         magic = 0xC0FFEE01u;
      }

      v = o.v;
      return *this;
   }
   int get() const
   {
      return magic == 0xC0FFEE01u ? v : -999;
   }
};
static int val(int x)
{
   return x;
}
static int val(const Elem& e)
{
   return e.get();
}

namespace soplex
{
typedef ClassSet<Elem>::Item CSItem;
static const int GUARD = 64;   // items
static std::vector<std::pair<CSItem*, int>> g_blocks;
inline void spx_alloc(CSItem*& p, int n = 1)
{
   if(n == 0)
      n = 1;

   size_t bytes = sizeof(CSItem) * (size_t)(n + GUARD);
   p = reinterpret_cast<CSItem*>(malloc(bytes));
   memset((void*)p, 0xAA, bytes);
   g_blocks.push_back({p, n});
}
inline void spx_free(CSItem*& p)
{
   for(size_t i = 0; i < g_blocks.size(); i++)
   {
      if(g_blocks[i].first == p)
      {
         const unsigned char* g = reinterpret_cast<const unsigned char*>(p + g_blocks[i].second);

         for(size_t b = 0; b < sizeof(CSItem) * GUARD; b++)
         {
            if(g[b] != 0xAA)
            {
               g_ovf++;
               break;
            }
         }

         g_blocks.erase(g_blocks.begin() + i);
         break;
      }
   }

   free(p);
   p = nullptr;
}
static long guardDamage()
{
   long d = g_ovf;

   for(auto& b : g_blocks)
   {
      const unsigned char* g = reinterpret_cast<const unsigned char*>(b.first + b.second);

      for(size_t k = 0; k < sizeof(CSItem) * GUARD; k++)
      {
         if(g[k] != 0xAA)
         {
            d++;
            break;
         }
      }
   }

   return d;
}
}

// ---------------------------------------------------------------------------------------------------------
// DataSet<int> and ClassSet<Elem>
// ---------------------------------------------------------------------------------------------------------
template <class SET, class E>
struct SetMachine
{
   SET* s = nullptr;
   bool probe = false;  // print the instrumentation counters (kind csp)
   bool dead = false;   // internal structure found broken: later operations of the case are not executed
   ~SetMachine()
   {
      if(!dead)
         delete s;
   }
   std::string init(const Toks& t)
   {
      probe = (t[2] == "csp");
      g_raw = 0;
      g_ovf = 0;
      s = new SET(t.size() > 3 ? I(t[3]) : 8);
      return dump();
   }
   std::string dump()
   {
      std::ostringstream o;
      o << "num=" << s->num() << " max=" << s->max() << " size=" << s->size() << " keys=";

      for(int n = 0; n < s->num(); n++)
         o << s->key(n).idx << ",";

      o << " elems=";

      for(int n = 0; n < s->num(); n++)
         o << val((*s)[n]) << ",";

      o << " slots=";

      for(int i = 0; i < s->size(); i++)
      {
         DataKey k(0, i);

         if(s->has(k))
            o << s->number(k) << ",";
         else
            o << "x,";
      }

      o << " bykey=";

      for(int i = 0; i < s->size(); i++)
      {
         DataKey k(0, i);

         if(s->has(k))
            o << val((*s)[k]) << ",";
         else
            o << "x,";
      }

      // internal: the free list (bounded walk)
      o << " free=";
      int f = s->firstfree, c;

      for(c = 0; c <= s->size() && f != -s->themax - 1; c++)
      {
         int i = -1 - f;
         o << i << ",";

         if(i < 0 || i >= s->themax)
         {
            o << "!";
            dead = true;
            break;
         }

         f = s->theitem[i].info;
      }

      if(!dead && f != -s->themax - 1)
      {
         o << "~";      // the list does not end within size()+1 links
         dead = true;
      }

      if(probe)
         o << " raw=" << g_raw << " ovf=" << soplex::guardDamage();

      return o.str();
   }
   static std::string list(const char* tag, const int* a, int n)
   {
      std::ostringstream o;
      o << tag;

      for(int i = 0; i < n; i++)
         o << a[i] << ",";

      return o.str();
   }
   std::string op(const Toks& t)
   {
      const std::string& c = t[0];
      std::string ret = "-";

      if(dead)
         return c + " ret=dead";

      if(c == "add")
      {
         if(s->num() < s->max())
         {
            DataKey k;
            s->add(k, E(I(t[1])));
            ret = "key:" + std::to_string(k.idx);
         }
         else
            ret = "skip";
      }
      else if(c == "addn")
      {
         int n = (int)t.size() - 1;

         if(s->num() + n <= s->max())
         {
            std::vector<E> items;
            std::vector<DataKey> ks(n + 1);

            for(int i = 0; i < n; i++)
               items.push_back(E(I(t[1 + i])));

            s->add(ks.data(), items.data(), n);
            std::vector<int> ki;

            for(int i = 0; i < n; i++)
               ki.push_back(ks[i].idx);

            ret = list("keys:", ki.data(), n);
         }
         else
            ret = "skip";
      }
      else if(c == "rm")
         s->remove(I(t[1]));
      else if(c == "rmk")
      {
         try
         {
            s->remove(DataKey(0, I(t[1])));
         }
         catch(const SPxException&)
         {
            ret = "exc";
         }
      }
      else if(c == "rmp")
      {
         int n = s->num();
         std::vector<int> perm(n + 1, 0);

         for(int k = 0; k < n; k++)
            perm[k] = (k + 1 < (int)t.size()) ? I(t[1 + k]) : 0;

         s->remove(perm.data());
         ret = list("perm:", perm.data(), n);
      }
      else if(c == "rmn")
      {
         int n = (int)t.size() - 1, num = s->num();
         std::vector<int> nums;
         bool ok = true;

         for(int i = 0; i < n; i++)
         {
            nums.push_back(I(t[1 + i]));
            ok = ok && s->has(nums.back());
         }

         if(ok)
         {
            std::vector<int> perm(num + 1, 0);
            s->remove(nums.data(), n, perm.data());
            ret = list("perm:", perm.data(), num);
         }
         else
            ret = "skip";
      }
      else if(c == "rmkn")
      {
         int n = (int)t.size() - 1, num = s->num();
         std::vector<DataKey> ks;
         bool ok = true;

         for(int i = 0; i < n; i++)
         {
            int k = I(t[1 + i]);
            ks.push_back(DataKey(0, k));
            ok = ok && k >= 0 && k < s->size() && s->has(ks.back());
         }

         if(ok)
         {
            std::vector<int> perm(num + 1, 0);
            s->remove(ks.data(), n, perm.data());
            ret = list("perm:", perm.data(), num);
         }
         else
            ret = "skip";
      }
      else if(c == "clear")
         s->clear();
      else if(c == "remax")
         s->reMax(I(t[1]));
      else if(c == "set")
      {
         if(s->has(I(t[1])))
            (*s)[I(t[1])] = E(I(t[2]));
      }
      else if(c == "copy")
      {
         SET* n = new SET(*s);
         delete s;
         s = n;
      }
      else if(c == "assign")
      {
         SET* n = new SET(I(t[1]));
         *n = *s;
         delete s;
         s = n;
      }
      else
         ret = "unknown";

      return c + " ret=" + ret + " " + dump();
   }
};

// ---------------------------------------------------------------------------------------------------------
struct Machine
{
   virtual ~Machine() {}
   virtual std::string init(const Toks& t) = 0;
   virtual std::string op(const Toks& t) = 0;
};
template <class M>
struct Wrap : Machine
{
   M m;
   std::string init(const Toks& t)
   {
      return m.init(t);
   }
   std::string op(const Toks& t)
   {
      return m.op(t);
   }
};

static Machine* make(const std::string& kind)
{
   if(kind == "ds")
      return new Wrap<SetMachine<DataSet<int>, int>>();

   if(kind == "cs" || kind == "csp")
      return new Wrap<SetMachine<ClassSet<Elem>, Elem>>();

   return nullptr;
}

// a case that does not finish within a few seconds is reported as a hang (the driver restarts after it)
static void onAlarm(int)
{
   const char* m = "HANG\n";
   ssize_t r = write(1, m, 5);
   (void) r;
   _exit(3);
}

static void runCases(const char* file)
{
   signal(SIGALRM, onAlarm);

   std::ifstream in(file);
   std::string line;
   std::unique_ptr<Machine> m;

   while(std::getline(in, line))
   {
      Toks t = vf::split(line);

      if(t.empty())
         continue;

      if(t[0] == "CASE")
      {
         alarm(5);
         m.reset(make(t[2]));
         printf("CASE %s\n", t[1].c_str());

         if(!m)
         {
            printf("init unknown-kind\n");
            continue;
         }

         printf("init %s\n", m->init(t).c_str());
      }
      else if(m)
         printf("%s\n", m->op(t).c_str());

      fflush(stdout);
   }
}

int main(int argc, char** argv)
{
   if(argc >= 3 && !strcmp(argv[1], "run"))
      runCases(argv[2]);
   else
   {
      fprintf(stderr, "usage: C19 run <casefile>\n");
      return 2;
   }

   return 0;
}
