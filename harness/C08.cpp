// C08 harness: drives SPxMainSM<double> directly on a bare SPxLPBase<double>.
//   SIMP <run> keep=<0|1> seed=<n> nvert=<k>
//     -> SIMP line: verdict, objective offset, history (step names), statistics, dimensions
//     -> for OKAY: the reduced LP (RLP/RC/RR lines), up to nvert distinct optimal vertices of it (SoPlex, simplifier off,
//        varied algorithm / pricer / representation / ratio tester / seed), each passed through
//          (a) our own backward walk over m_hist (private; -fno-access-control) recording the recorded data of every
//              step (S), the state before (PRE) and after (POST) its execute(), and
//          (b) the real unsimplify() on a second, identically simplified instance: UNS line with the unsimplified
//              primal / slack / dual / reduced cost vectors and the basis; walk=1 iff (a) ended in exactly the same state.
//     -> for VANISHED: the same with the empty solution (as SoPlexBase::_storeSolutionRealFromPresol does).
// Doubles are printed as exact dyadics.
#include "soplex.h"
#include "common.hpp"
#include <fstream>
#include <map>
#include <set>

using namespace soplex;
using vf::dy;
typedef SoPlexBase<double> SP;
typedef SPxMainSM<double> SM;
typedef SPxSolverBase<double>::VarStatus VS;

static std::ofstream devnull("/dev/null");
static SPxOut g_out;

static void quiet(SP& s)
{
   for(int v = SPxOut::ERROR; v <= SPxOut::INFO3; v++)
      s.spxout.setStream((SPxOut::Verbosity)v, devnull);
}

struct CaseLP
{
   bool maxi;
   std::string offset;
   std::vector<std::string> obj, lo, up, lhs, rhs;
   std::vector<std::vector<std::pair<int, std::string>>> rows;
};

static double num(const std::string& t)
{
   if(t == "inf") return infinity;

   if(t == "-inf") return -infinity;

   size_t c = t.find('/');

   if(c == std::string::npos) return atof(t.c_str());

   return atof(t.substr(0, c).c_str()) / atof(t.substr(c + 1).c_str());
}

static void build(SPxLPBase<double>& lp, const CaseLP& L, std::shared_ptr<Tolerances> tol)
{
   lp.setOutstream(g_out);
   lp.setTolerances(tol);
   lp.changeSense(L.maxi ? SPxLPBase<double>::MAXIMIZE : SPxLPBase<double>::MINIMIZE);
   DSVector empty(0);

   for(size_t j = 0; j < L.obj.size(); j++)
      lp.addCol(LPColBase<double>(num(L.obj[j]), empty, num(L.up[j]), num(L.lo[j])));

   for(size_t i = 0; i < L.rows.size(); i++)
   {
      DSVector r((int)L.rows[i].size());

      for(auto& e : L.rows[i])
         r.add(e.first, num(e.second));

      lp.addRow(LPRowBase<double>(num(L.lhs[i]), r, num(L.rhs[i])));
   }
}

static const char* resName(SPxSimplifier<double>::Result r)
{
   switch(r)
   {
   case SPxSimplifier<double>::OKAY: return "OKAY";
   case SPxSimplifier<double>::INFEASIBLE: return "INFEASIBLE";
   case SPxSimplifier<double>::DUAL_INFEASIBLE: return "DUAL_INFEASIBLE";
   case SPxSimplifier<double>::UNBOUNDED: return "UNBOUNDED";
   case SPxSimplifier<double>::VANISHED: return "VANISHED";
   default: return "OTHER";
   }
}

static char sc(VS s)
{
   switch(s)
   {
   case SPxSolverBase<double>::ON_UPPER: return 'U';
   case SPxSolverBase<double>::ON_LOWER: return 'L';
   case SPxSolverBase<double>::FIXED: return 'F';
   case SPxSolverBase<double>::ZERO: return 'Z';
   case SPxSolverBase<double>::BASIC: return 'B';
   default: return '?';
   }
}

static std::string vecD(const VectorBase<double>& v)
{
   std::string o;

   for(int i = 0; i < v.dim(); i++)
      o += dy(v[i]) + ",";

   return o.empty() ? "," : o;
}

static std::string stS(const DataArray<VS>& a)
{
   std::string o;

   for(int i = 0; i < a.size(); i++)
      o += sc(a[i]);

   return o + ",";
}

static std::string svS(const SVectorBase<double>& v)
{
   if(v.size() == 0)
      return "-";

   std::string o;

   for(int k = 0; k < v.size(); k++)
      o += std::to_string(v.index(k)) + ":" + dy(v.value(k)) + ";";

   return o;
}

static std::string permS(const DataArray<int>& p)
{
   if(p.size() == 0)
      return "-";

   std::string o;

   for(int k = 0; k < p.size(); k++)
      o += std::to_string(p[k]) + ",";

   return o;
}

// recorded data of one post-solve step, in the format extract/C08/driver.ml reads
static std::string stepData(const SM::PostStep* p)
{
   std::ostringstream o;

   if(auto q = dynamic_cast<const SM::RowObjPS*>(p))
      o << "i=" << q->m_i << " j=" << q->m_j;
   else if(auto q = dynamic_cast<const SM::FreeConstraintPS*>(p))
      o << "i=" << q->m_i << " old_i=" << q->m_old_i << " row=" << svS(q->m_row) << " row_obj=" << dy(q->m_row_obj);
   else if(auto q = dynamic_cast<const SM::EmptyConstraintPS*>(p))
      o << "i=" << q->m_i << " old_i=" << q->m_old_i << " row_obj=" << dy(q->m_row_obj);
   else if(auto q = dynamic_cast<const SM::FixVariablePS*>(p))
      o << "j=" << q->m_j << " old_j=" << q->m_old_j << " val=" << dy(q->m_val) << " obj=" << dy(q->m_obj) << " lower=" << dy(q->m_lower)
        << " upper=" << dy(q->m_upper) << " correctIdx=" << (q->m_correctIdx ? 1 : 0) << " col=" << svS(q->m_col);
   else if(auto q = dynamic_cast<const SM::FixBoundsPS*>(p))
      o << "j=" << q->m_j << " status=" << sc(q->m_status);
   else if(auto q = dynamic_cast<const SM::RowSingletonPS*>(p))
      o << "i=" << q->m_i << " old_i=" << q->m_old_i << " j=" << q->m_j << " lhs=" << dy(q->m_lhs) << " rhs=" << dy(q->m_rhs) << " obj=" << dy(q->m_obj)
        << " col=" << svS(q->m_col) << " oldLo=" << dy(q->m_oldLo) << " oldUp=" << dy(q->m_oldUp) << " row_obj=" << dy(q->m_row_obj);
   else if(auto q = dynamic_cast<const SM::ForceConstraintPS*>(p))
   {
      o << "i=" << q->m_i << " old_i=" << q->m_old_i << " lRhs=" << dy(q->m_lRhs) << " lhs=" << dy(q->m_lhs) << " rhs=" << dy(q->m_rhs)
        << " rowobj=" << dy(q->m_rowobj);

      for(int k = 0; k < q->m_row.size(); k++)
         o << " e=" << q->m_row.index(k) << "|" << dy(q->m_row.value(k)) << "|" << dy(q->m_objs[k]) << "|" << (q->m_fixed[k] ? 1 : 0) << "|"
           << dy(q->m_oldLowers[k]) << "|" << dy(q->m_oldUppers[k]) << "|" << svS(q->m_cols[k]);
   }
   else if(auto q = dynamic_cast<const SM::ZeroObjColSingletonPS*>(p))
      o << "j=" << q->m_j << " i=" << q->m_i << " old_j=" << q->m_old_j << " lhs=" << dy(q->m_lhs) << " rhs=" << dy(q->m_rhs) << " lower=" << dy(q->m_lower)
        << " upper=" << dy(q->m_upper) << " row=" << svS(q->m_row);
   else if(auto q = dynamic_cast<const SM::FreeColSingletonPS*>(p))
      o << "j=" << q->m_j << " i=" << q->m_i << " old_j=" << q->m_old_j << " old_i=" << q->m_old_i << " obj=" << dy(q->m_obj) << " lRhs=" << dy(q->m_lRhs)
        << " onLhs=" << (q->m_onLhs ? 1 : 0) << " eqCons=" << (q->m_eqCons ? 1 : 0) << " row=" << svS(q->m_row);
   else if(auto q = dynamic_cast<const SM::DoubletonEquationPS*>(p))
      o << "j=" << q->m_j << " k=" << q->m_k << " i=" << q->m_i << " maxSense=" << (q->m_maxSense ? 1 : 0) << " jFixed=" << (q->m_jFixed ? 1 : 0)
        << " jObj=" << dy(q->m_jObj) << " kObj=" << dy(q->m_kObj) << " aij=" << dy(q->m_aij) << " strictLo=" << (q->m_strictLo ? 1 : 0)
        << " strictUp=" << (q->m_strictUp ? 1 : 0) << " Lo_j=" << dy(q->m_Lo_j) << " col=" << svS(q->m_col);
   else if(auto q = dynamic_cast<const SM::DuplicateRowsPS*>(p))
   {
      o << "i=" << q->m_i << " i_rowObj=" << dy(q->m_i_rowObj) << " maxLhsIdx=" << q->m_maxLhsIdx << " minRhsIdx=" << q->m_minRhsIdx
        << " isLast=" << (q->m_isLast ? 1 : 0) << " isFirst=" << (q->m_isFirst ? 1 : 0) << " perm=" << permS(q->m_perm);

      for(int k = 0; k < q->m_scale.size(); k++)
         o << " e=" << q->m_scale.index(k) << "|" << dy(q->m_scale.value(k)) << "|" << dy(k < q->m_rowObj.max() ? q->m_rowObj.value(k) : 0.0) << "|"
           << (q->m_isLhsEqualRhs[k] ? 1 : 0);
   }
   else if(auto q = dynamic_cast<const SM::DuplicateColsPS*>(p))
      o << "j=" << q->m_j << " k=" << q->m_k << " loJ=" << dy(q->m_loJ) << " upJ=" << dy(q->m_upJ) << " loK=" << dy(q->m_loK) << " upK=" << dy(q->m_upK)
        << " scale=" << dy(q->m_scale) << " isFirst=" << (q->m_isFirst ? 1 : 0) << " isLast=" << (q->m_isLast ? 1 : 0) << " perm=" << permS(q->m_perm);
   else if(auto q = dynamic_cast<const SM::AggregationPS*>(p))
      o << "j=" << q->m_j << " i=" << q->m_i << " old_j=" << q->m_old_j << " old_i=" << q->m_old_i << " upper=" << dy(q->m_upper) << " lower=" << dy(q->m_lower)
        << " obj=" << dy(q->m_obj) << " oldupper=" << dy(q->m_oldupper) << " oldlower=" << dy(q->m_oldlower) << " rhs=" << dy(q->m_rhs)
        << " row=" << svS(q->m_row) << " col=" << svS(q->m_col);
   else if(auto q = dynamic_cast<const SM::MultiAggregationPS*>(p))
      o << "j=" << q->m_j << " i=" << q->m_i << " old_j=" << q->m_old_j << " old_i=" << q->m_old_i << " obj=" << dy(q->m_obj) << " const=" << dy(q->m_const)
        << " onLhs=" << (q->m_onLhs ? 1 : 0) << " eqCons=" << (q->m_eqCons ? 1 : 0) << " row=" << svS(q->m_row) << " col=" << svS(q->m_col);
   else if(auto q = dynamic_cast<const SM::TightenBoundsPS*>(p))
      o << "j=" << q->m_j << " origupper=" << dy(q->m_origupper) << " origlower=" << dy(q->m_origlower);
   else if(auto q = dynamic_cast<const SM::FreeZeroObjVariablePS*>(p))
   {
      o << "j=" << q->m_j << " old_j=" << q->m_old_j << " old_i=" << q->m_old_i << " bnd=" << dy(q->m_bnd) << " loFree=" << (q->m_loFree ? 1 : 0);

      for(int k = 0; k < q->m_col.size(); k++)
         o << " e=" << q->m_col.index(k) << "|" << dy(q->m_col.value(k)) << "|" << dy(q->m_lRhs[k]) << "|" << dy(q->m_rowObj[q->m_col.index(k)]) << "|"
           << svS(q->m_rows[k]);
   }
   else
      o << "unknown=1";

   return o.str();
}

static void dumpLP(const char* tag, const std::string& id, const SPxLPBase<double>& lp)
{
   printf("%s %s %s n=%d m=%d off=%s\n", tag, id.c_str(), lp.spxSense() == SPxLPBase<double>::MAXIMIZE ? "max" : "min", lp.nCols(), lp.nRows(),
          dy(lp.objOffset()).c_str());

   for(int j = 0; j < lp.nCols(); j++)
      printf("RC %s %s %s\n", dy(lp.obj(j)).c_str(), dy(lp.lower(j)).c_str(), dy(lp.upper(j)).c_str());

   for(int i = 0; i < lp.nRows(); i++)
   {
      printf("RR %s %s", dy(lp.lhs(i)).c_str(), dy(lp.rhs(i)).c_str());
      const SVectorBase<double>& r = lp.rowVector(i);

      for(int k = 0; k < r.size(); k++)
         printf(" %d:%s", r.index(k), dy(r.value(k)).c_str());

      printf("\n");
   }
}

struct Vertex
{
   VectorBase<double> x, y, s, r;
   std::vector<VS> rows, cols;
   double obj;
   std::string cfg;
};

// solve the reduced LP with SoPlex (no simplifier) under the given settings
static bool solveReduced(const SPxLPBase<double>& red, const std::vector<std::pair<int, int>>& ints, unsigned seed, Vertex& v, std::string& status)
{
   SP s;
   quiet(s);
   s.setIntParam(SP::SIMPLIFIER, SP::SIMPLIFIER_OFF);
   s.setIntParam(SP::SCALER, SP::SCALER_OFF);
   s.setIntParam(SP::OBJSENSE, red.spxSense() == SPxLPBase<double>::MAXIMIZE ? SP::OBJSENSE_MAXIMIZE : SP::OBJSENSE_MINIMIZE);

   for(auto& kv : ints)
      s.setIntParam((SP::IntParam)kv.first, kv.second);

   s.setRandomSeed(seed);
   DSVector empty(0);

   for(int j = 0; j < red.nCols(); j++)
      s.addColReal(LPCol(red.obj(j), empty, red.upper(j), red.lower(j)));

   for(int i = 0; i < red.nRows(); i++)
      s.addRowReal(LPRow(red.lhs(i), red.rowVector(i), red.rhs(i)));

   s.setRealParam(SP::OBJ_OFFSET, red.objOffset());
   s.optimize();
   status = s.status() == SPxSolverBase<double>::OPTIMAL ? "OPTIMAL" : (s.status() == SPxSolverBase<double>::INFEASIBLE ? "INFEASIBLE" :
            (s.status() == SPxSolverBase<double>::UNBOUNDED ? "UNBOUNDED" : (s.status() == SPxSolverBase<double>::INForUNBD ? "INForUNBD" : "OTHER")));

   if(s.status() != SPxSolverBase<double>::OPTIMAL || !s.hasBasis())
      return false;

   int n = red.nCols(), m = red.nRows();
   v.x.reDim(n);
   v.r.reDim(n);
   v.y.reDim(m);
   v.s.reDim(m);
   v.rows.assign(m, SPxSolverBase<double>::BASIC);
   v.cols.assign(n, SPxSolverBase<double>::ZERO);

   if(!s.getPrimal(v.x) || !s.getSlacksReal(v.s) || !s.getDual(v.y) || !s.getRedCost(v.r))
      return false;

   s.getBasis(v.rows.data(), v.cols.data());
   v.obj = s.objValueReal();
   return true;
}

static void parseVec(const std::string& str, VectorBase<double>& v)
{
   std::vector<double> vals;
   std::istringstream is(str);
   std::string tok;

   while(std::getline(is, tok, ','))
      if(!tok.empty())
         vals.push_back(vf::undy(tok));

   v.reDim((int)vals.size());

   for(size_t k = 0; k < vals.size(); k++)
      v[(int)k] = vals[k];
}

static void parseStat(const std::string& str, std::vector<VS>& a)
{
   a.clear();

   for(char c : str)
   {
      switch(c)
      {
      case 'U': a.push_back(SPxSolverBase<double>::ON_UPPER); break;

      case 'L': a.push_back(SPxSolverBase<double>::ON_LOWER); break;

      case 'F': a.push_back(SPxSolverBase<double>::FIXED); break;

      case 'Z': a.push_back(SPxSolverBase<double>::ZERO); break;

      case 'B': a.push_back(SPxSolverBase<double>::BASIC); break;

      default: break;
      }
   }
}

static std::string stV(const std::vector<VS>& a)
{
   std::string o;

   for(auto s : a)
      o += sc(s);

   return o + ",";
}

// our own walk over the history: mirrors the body of SPxMainSM::unsimplify
static bool walk(SM& sm, const std::string& id, const Vertex& v, bool dump, VectorBase<double>& X, VectorBase<double>& Y, VectorBase<double>& S,
                 VectorBase<double>& R, DataArray<VS>& CS, DataArray<VS>& RS)
{
   double eps = sm.epsZero();
   bool maxi = sm.m_thesense == SPxLPBase<double>::MAXIMIZE;
   X.reDim(sm.m_prim.dim());
   R.reDim(sm.m_redCost.dim());
   Y.reDim(sm.m_dual.dim());
   S.reDim(sm.m_slack.dim());
   X.clear();
   R.clear();
   Y.clear();
   S.clear();
   CS.reSize(sm.m_cBasisStat.size());
   RS.reSize(sm.m_rBasisStat.size());

   for(int j = 0; j < CS.size(); j++) CS[j] = SPxSolverBase<double>::UNDEFINED;

   for(int i = 0; i < RS.size(); i++) RS[i] = SPxSolverBase<double>::UNDEFINED;

   for(int j = 0; j < v.x.dim(); ++j)
   {
      X[j] = isZero(v.x[j], eps) ? 0.0 : v.x[j];
      R[j] = isZero(v.r[j], eps) ? 0.0 : (maxi ? -v.r[j] : v.r[j]);
      CS[j] = v.cols[j];
   }

   for(int i = 0; i < v.y.dim(); ++i)
   {
      Y[i] = isZero(v.y[i], eps) ? 0.0 : (maxi ? -v.y[i] : v.y[i]);
      S[i] = isZero(v.s[i], eps) ? 0.0 : v.s[i];
      RS[i] = v.rows[i];
   }

   if(dump)
      printf("TRACE %s ft=%s ep=%s inf=%s n=%d m=%d maxi=%d\n", id.c_str(), dy(sm.feastol()).c_str(), dy(sm.epsZero()).c_str(), dy(infinity).c_str(),
             X.dim(), Y.dim(), maxi ? 1 : 0);

   for(int k = sm.m_hist.size() - 1; k >= 0; --k)
   {
      const SM::PostStep* p = sm.m_hist[k].get();

      if(dump)
      {
         printf("S %d %s %s\n", k, p->getName(), stepData(p).c_str());
         printf("PRE %d x=%s y=%s s=%s r=%s cs=%s rs=%s\n", k, vecD(X).c_str(), vecD(Y).c_str(), vecD(S).c_str(), vecD(R).c_str(), stS(CS).c_str(),
                stS(RS).c_str());
      }

      try
      {
         p->execute(X, Y, S, R, CS, RS, true);
      }
      catch(const SPxException& ex)
      {
         if(dump)
            printf("POST %d EXC\n", k);

         return false;
      }

      if(dump)
         printf("POST %d x=%s y=%s s=%s r=%s cs=%s rs=%s\n", k, vecD(X).c_str(), vecD(Y).c_str(), vecD(S).c_str(), vecD(R).c_str(), stS(CS).c_str(),
                stS(RS).c_str());
   }

   if(maxi)
   {
      for(int j = 0; j < R.dim(); ++j) R[j] = -R[j];

      for(int i = 0; i < Y.dim(); ++i) Y[i] = -Y[i];
   }

   if(sm.m_addedcols > 0)
   {
      X.reDim(X.dim() - sm.m_addedcols);
      R.reDim(R.dim() - sm.m_addedcols);
      CS.reSize(CS.size() - sm.m_addedcols);
   }

   return true;
}

static bool sameD(const VectorBase<double>& a, const VectorBase<double>& b)
{
   if(a.dim() != b.dim()) return false;

   for(int i = 0; i < a.dim(); i++)
      if(!(a[i] == b[i]) && !(a[i] != a[i] && b[i] != b[i])) return false;

   return true;
}

// the postsolve of one solution of the reduced LP: own walk + the real unsimplify on the same simplifier object
static void postsolve(const CaseLP& L, std::shared_ptr<Tolerances> tol, bool keep, unsigned seed, const std::string& id, const Vertex& v, bool dump)
{
   SPxLPBase<double> lp;
   build(lp, L, tol);
   SM sm;
   sm.setOutstream(g_out);
   sm.setTolerances(tol);
   auto res = sm.simplify(lp, infinity, keep, seed);

   if(res != SPxSimplifier<double>::OKAY && res != SPxSimplifier<double>::VANISHED)
   {
      printf("UNS %s error=resimplify-%s\n", id.c_str(), resName(res));
      return;
   }

   if(lp.nCols() != v.x.dim() && res == SPxSimplifier<double>::OKAY)
   {
      printf("UNS %s error=resimplify-dims\n", id.c_str());
      return;
   }

   // make the status arrays deterministic beyond the reduced dimensions (DataArray::reSize leaves them uninitialised)
   for(int j = 0; j < sm.m_cBasisStat.size(); j++) sm.m_cBasisStat[j] = SPxSolverBase<double>::UNDEFINED;

   for(int i = 0; i < sm.m_rBasisStat.size(); i++) sm.m_rBasisStat[i] = SPxSolverBase<double>::UNDEFINED;

   VectorBase<double> X, Y, S, R;
   DataArray<VS> CS, RS;
   bool wok = walk(sm, id, v, dump, X, Y, S, R, CS, RS);
   bool exc = false;

   try
   {
      sm.unsimplify(v.x, v.y, v.s, v.r, v.rows.data(), v.cols.data(), true);
   }
   catch(const SPxException& ex)
   {
      exc = true;
   }

   if(exc)
   {
      printf("UNS %s exception=1 walk=%d\n", id.c_str(), wok ? 0 : 1);
      return;
   }

   int n = sm.unsimplifiedPrimal().dim(), m = sm.unsimplifiedDual().dim();
   DataArray<VS> rows(m), cols(n);
   sm.getBasis(rows.get_ptr(), cols.get_ptr(), m, n);
   bool same = wok && sameD(X, sm.unsimplifiedPrimal()) && sameD(Y, sm.unsimplifiedDual()) && sameD(S, sm.unsimplifiedSlacks())
               && sameD(R, sm.unsimplifiedRedCost()) && stS(CS) == stS(cols) && stS(RS) == stS(rows);
   printf("UNS %s walk=%d redobj=%s cfg=%s x=%s s=%s y=%s d=%s rs=%s cs=%s\n", id.c_str(), same ? 1 : 0, dy(v.obj).c_str(), v.cfg.c_str(),
          vecD(sm.unsimplifiedPrimal()).c_str(), vecD(sm.unsimplifiedSlacks()).c_str(), vecD(sm.unsimplifiedDual()).c_str(),
          vecD(sm.unsimplifiedRedCost()).c_str(), stS(rows).c_str(), stS(cols).c_str());
}

static void runSimp(const CaseLP& L, const std::string& id, const std::map<std::string, std::string>& a)
{
   bool keep = a.count("keep") && a.at("keep") == "1";
   unsigned seed = a.count("seed") ? (unsigned)strtoul(a.at("seed").c_str(), nullptr, 10) : 0;
   int nvert = a.count("nvert") ? atoi(a.at("nvert").c_str()) : 1;
   bool dump = !a.count("steps") || a.at("steps") == "1";
   auto tol = std::make_shared<Tolerances>();
   SPxLPBase<double> lp;
   build(lp, L, tol);
   SM sm;
   sm.setOutstream(g_out);
   sm.setTolerances(tol);
   SPxSimplifier<double>::Result res;

   try
   {
      res = sm.simplify(lp, infinity, keep, seed);
   }
   catch(const SPxException& ex)
   {
      printf("SIMP %s result=EXCEPTION what=%s\n", id.c_str(), vf::hex(ex.what()).c_str());
      return;
   }

   printf("SIMP %s result=%s objoff=%s keep=%d seed=%u n=%d m=%d addedcols=%d hist=", id.c_str(), resName(res), dy(sm.getObjoffset()).c_str(), keep ? 1 : 0, seed,
          lp.nCols(), lp.nRows(), sm.m_addedcols);

   for(int k = 0; k < sm.m_hist.size(); k++)
      printf("%s;", sm.m_hist[k]->getName());

   printf(", stat=");

   for(int k = 0; k < sm.m_stat.size(); k++)
      if(sm.m_stat[k] > 0)
         printf("%d:%d;", k, sm.m_stat[k]);

   printf(",\n");
   fflush(stdout);

   if(res == SPxSimplifier<double>::VANISHED)
   {
      // as SoPlexBase::_storeSolutionRealFromPresol: zero vectors of the original dimensions and the slack basis
      Vertex v;
      int n = (int)L.obj.size(), m = (int)L.rows.size();
      v.x.reDim(n);
      v.r.reDim(n);
      v.y.reDim(m);
      v.s.reDim(m);
      v.x.clear();
      v.r.clear();
      v.y.clear();
      v.s.clear();
      v.rows.assign(m, SPxSolverBase<double>::BASIC);
      v.cols.assign(n, SPxSolverBase<double>::ZERO);
      SPxLPBase<double> orig;
      build(orig, L, tol);

      for(int j = 0; j < n; j++)
      {
         double lo = orig.lower(j), up = orig.upper(j), mo = orig.maxObj(j);

         if(lo > -infinity && up < infinity)
            v.cols[j] = lo == up ? SPxSolverBase<double>::FIXED : (mo < 0 ? SPxSolverBase<double>::ON_LOWER : (mo > 0 ? SPxSolverBase<double>::ON_UPPER :
                        (-lo < up ? SPxSolverBase<double>::ON_LOWER : SPxSolverBase<double>::ON_UPPER)));
         else if(lo > -infinity)
            v.cols[j] = SPxSolverBase<double>::ON_LOWER;
         else if(up < infinity)
            v.cols[j] = SPxSolverBase<double>::ON_UPPER;
      }

      v.obj = sm.getObjoffset();
      v.cfg = "vanished";
      postsolve(L, tol, keep, seed, id + ".0", v, dump);
      return;
   }

   if(res != SPxSimplifier<double>::OKAY)
   {
      // the LP as it stands at the moment of the verdict (evidence for replays; not parsed by the check)
      dumpLP("VLP", id, lp);
      return;
   }

   lp.changeObjOffset(sm.getObjoffset());
   dumpLP("RLP", id, lp);
   // candidate settings for the reduced solves: (algorithm, pricer, representation, ratiotester)
   static const int cfgs[][4] = {{1, 0, 0, 3}, {0, 4, 1, 2}, {1, 3, 2, 1}, {0, 2, 1, 0}, {1, 1, 1, 3}, {0, 5, 2, 2}, {1, 4, 2, 0}, {0, 3, 1, 1},
      {1, 2, 0, 2}, {0, 1, 2, 3}, {1, 5, 1, 1}, {0, 0, 0, 0}
   };
   std::set<std::string> seen;
   int found = 0;
   int ntry = nvert <= 1 ? 1 : std::min(12, 3 * nvert);

   for(int c = 0; c < ntry && found < nvert; c++)
   {
      Vertex v;
      std::string status;
      std::vector<std::pair<int, int>> ints = {{SP::ALGORITHM, cfgs[c][0]}, {SP::PRICER, cfgs[c][1]}, {SP::REPRESENTATION, cfgs[c][2]},
         {SP::RATIOTESTER, cfgs[c][3]}
      };
      bool ok;

      try
      {
         ok = solveReduced(lp, ints, seed * 31 + c, v, status);
      }
      catch(const SPxException& ex)
      {
         ok = false;
         status = "EXCEPTION";
      }

      if(!ok)
      {
         printf("RSOLVE %s.%d status=%s\n", id.c_str(), c, status.c_str());
         continue;
      }

      std::string key = vecD(v.x) + vecD(v.y) + stV(v.rows) + stV(v.cols);

      if(seen.count(key))
         continue;

      seen.insert(key);
      char buf[64];
      snprintf(buf, sizeof(buf), "a%dp%dr%dt%d", cfgs[c][0], cfgs[c][1], cfgs[c][2], cfgs[c][3]);
      v.cfg = buf;
      std::string vid = id + "." + std::to_string(found);
      printf("VERT %s cfg=%s obj=%s x=%s s=%s y=%s d=%s rs=%s cs=%s\n", vid.c_str(), buf, dy(v.obj).c_str(), vecD(v.x).c_str(), vecD(v.s).c_str(),
             vecD(v.y).c_str(), vecD(v.r).c_str(), stV(v.rows).c_str(), stV(v.cols).c_str());
      postsolve(L, tol, keep, seed, vid, v, dump);
      fflush(stdout);
      found++;
   }
}

int main(int argc, char** argv)
{
   if(argc < 2)
   {
      fprintf(stderr, "usage: C08 <casefile>\n");
      return 2;
   }

   for(int v = SPxOut::ERROR; v <= SPxOut::INFO3; v++)
      g_out.setStream((SPxOut::Verbosity)v, devnull);

   g_out.setVerbosity(SPxOut::ERROR);
   std::ifstream in(argv[1]);
   std::string line;
   CaseLP L;
   std::string id;

   while(std::getline(in, line))
   {
      auto t = vf::split(line);

      if(t.empty()) continue;

      if(t[0] == "LP")
      {
         L = CaseLP();
         id = t[1];
         L.maxi = t[2] == "max";
         L.offset = t[3];
         printf("CASE %s\n", id.c_str());
      }
      else if(t[0] == "C")
      {
         L.obj.push_back(t[1]);
         L.lo.push_back(t[2]);
         L.up.push_back(t[3]);
      }
      else if(t[0] == "R")
      {
         L.lhs.push_back(t[1]);
         L.rhs.push_back(t[2]);
         std::vector<std::pair<int, std::string>> r;

         for(size_t k = 3; k < t.size(); k++)
         {
            size_t c = t[k].find(':');
            r.push_back({atoi(t[k].substr(0, c).c_str()), t[k].substr(c + 1)});
         }

         L.rows.push_back(r);
      }
      else if(t[0] == "SIMPX")
      {
         // SIMPX <run> keep= seed= vid= x= y= s= r= rs= cs=   : postsolve a given optimal basic solution of the reduced LP
         std::map<std::string, std::string> a;

         for(size_t k = 2; k < t.size(); k++)
         {
            size_t e = t[k].find('=');

            if(e != std::string::npos)
               a[t[k].substr(0, e)] = t[k].substr(e + 1);
         }

         try
         {
            Vertex v;
            parseVec(a["x"], v.x);
            parseVec(a["y"], v.y);
            parseVec(a["s"], v.s);
            parseVec(a["r"], v.r);
            parseStat(a["rs"], v.rows);
            parseStat(a["cs"], v.cols);
            v.obj = vf::undy(a["obj"]);
            v.cfg = "altbasis";
            auto tol = std::make_shared<Tolerances>();
            postsolve(L, tol, a["keep"] == "1", (unsigned)strtoul(a["seed"].c_str(), nullptr, 10), id + "/" + t[1] + "." + a["vid"], v, true);
         }
         catch(const std::exception& e)
         {
            printf("UNS %s/%s.%s stdexception=%s\n", id.c_str(), t[1].c_str(), a["vid"].c_str(), vf::hex(e.what()).c_str());
         }

         fflush(stdout);
      }
      else if(t[0] == "SIMP")
      {
         std::map<std::string, std::string> a;

         for(size_t k = 2; k < t.size(); k++)
         {
            size_t e = t[k].find('=');

            if(e != std::string::npos)
               a[t[k].substr(0, e)] = t[k].substr(e + 1);
         }

         try
         {
            runSimp(L, id + "/" + t[1], a);
         }
         catch(const std::exception& e)
         {
            printf("SIMP %s/%s result=STDEXCEPTION what=%s\n", id.c_str(), t[1].c_str(), vf::hex(e.what()).c_str());
         }

         fflush(stdout);
      }
   }

   return 0;
}
