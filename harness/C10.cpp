// C10 / C11 harness: drives soplex::SLUFactor<double> and soplex::SLUFactorRational stand-alone through
// load / solve / update sequences, following the protocol SPxBasisBase uses (spxbasis.hpp: factorize, change),
// and the rational basis-inverse queries of SoPlex after exact solves.
// All vectors are printed exactly (doubles as dyadics m:e, rationals as num/den).
// Compiled against /repo/src on every tree state (see vlib.build_harness).
//
// case file (one command per line):
//   CASE id kind dim utype markowitz        kind: D (double) | R (rational); utype 0 = ETA, 1 = FOREST_TOMLIN
//   COL j k i1 v1 ... ik vk                  column j of the matrix
//   LOAD                                      (re)factorize the current matrix
//   SR/SRS/SL/SLS  <svec>                     single solves (dense vectors / semi-sparse result + sparse rhs)
//   SL2/SL2S/SL3/SL3S  <svec> <svec> [<svec>] multi left solves (S: all results semi-sparse)
//   CHG idx mode <svec col> [<svec> [<svec>]] replace column idx; mode 1/2/3 = solve{,2,3}right4update + change,
//                                             mode 4/5 = the sparse 2/3 variants, mode E = change with explicit eta
//                                             (ETA only), mode N = change without a preceding solve (ETA only)
//   <svec> = k i1 v1 ... ik vk
#include "soplex.h"
#include "common.hpp"
#include <fstream>
#include <memory>

using namespace soplex;
using vf::dy;

typedef SLUFactor<double> LUD;

// Semi-sparse work vectors are created the way the solver creates them (empty, then reDim): reDim reserves one index
// slot more than the dimension, which the hyper-sparse solves rely on (they store an index before they know whether it
// is new, see CLUFactor::vSolveUpdateRight).
struct SSVD : public SSVectorBase<double>
{
   SSVD(int n, std::shared_ptr<Tolerances> tol) : SSVectorBase<double>(0, tol)
   {
      reDim(n);
   }
};
struct SSVR : public SSVectorRational
{
   explicit SSVR(int n) : SSVectorRational(0)
   {
      reDim(n);
   }
};

static const char* statName(int s)
{
   switch(s)
   {
   case 0:
      return "OK";

   case 1:
      return "INSTABLE";

   case 2:
      return "SINGULAR";

   case 4:
      return "UNLOADED";

   case 8:
      return "ERROR";

   case 16:
      return "TIME";
   }

   return "?";
}

// ---------------------------------------------------------------------------------------------------
// token stream helpers
// ---------------------------------------------------------------------------------------------------
struct Toks
{
   std::vector<std::string> t;
   size_t p;
   Toks(const std::string& line) : t(vf::split(line)), p(0) {}
   bool more() const
   {
      return p < t.size();
   }
   std::string next()
   {
      return p < t.size() ? t[p++] : std::string("0");
   }
   int nextInt()
   {
      return atoi(next().c_str());
   }
};

static double valD(const std::string& s)
{
   return vf::undy(s);
}
static Rational valR(const std::string& s)
{
   return Rational(s.c_str());
}
static std::string strD(double x)
{
   return dy(x);
}
static std::string strR(const Rational& r)
{
   return r.str();
}

// ---------------------------------------------------------------------------------------------------
// double factorization
// ---------------------------------------------------------------------------------------------------
struct DoubleCase
{
   int n;
   std::shared_ptr<Tolerances> tol;
   LUD f;
   std::vector<DSVectorBase<double>> cols;
   std::vector<const SVectorBase<double>*> ptr;
   double minStab;
   bool factorized;
   // bookkeeping of SPxBasisBase (defaults: maxUpdates 200, nonzeroFactor 10, fillFactor 5, memFactor 1.5)
   int updateCount, nzCount, lastMem, lastNzCount;
   double lastFill;

   DoubleCase(int dim, int utype, double mark) : n(dim), tol(std::make_shared<Tolerances>()), cols(dim), ptr(dim),
      minStab(0), factorized(false), updateCount(0), nzCount(1), lastMem(0), lastNzCount(0), lastFill(0)
   {
      f.setTolerances(tol);
      f.setUtype(utype == 0 ? LUD::ETA : LUD::FOREST_TOMLIN);
      f.setMarkowitz(mark);

      for(int j = 0; j < n; j++)
         ptr[j] = &cols[j];
   }

   DSVectorBase<double> svec(Toks& tk)
   {
      int k = tk.nextInt();
      DSVectorBase<double> v(k > 0 ? k : 1);

      for(int i = 0; i < k; i++)
      {
         int idx = tk.nextInt();
         double x = valD(tk.next());
         v.add(idx, x);
      }

      return v;
   }

   // mirrors SPxBasisBase<R>::factorize()
   std::string load()
   {
      updateCount = 0;
      nzCount = 0;

      for(int j = 0; j < n; j++)
         nzCount += cols[j].size();

      int st = (int) f.load(ptr.data(), n);
      lastMem = f.memory();
      lastFill = 5.0 * double(lastMem) / double(nzCount > 0 ? nzCount : 1);
      lastNzCount = int(10.0 * double(nzCount > 0 ? nzCount : 1));
      std::ostringstream o;
      o << "status=" << statName(st);

      if(st == LUD::OK)
      {
         factorized = true;
         minStab = f.stability();
         o << " stab=" << dy(minStab);

         if(minStab > 1e-4)
            minStab *= 0.001;

         if(minStab > 1e-5)
            minStab *= 0.01;

         if(minStab > 1e-6)
            minStab *= 0.1;
      }
      else
         factorized = false;

      return o.str();
   }

   std::string dense(const VectorBase<double>& x)
   {
      std::ostringstream o;

      for(int i = 0; i < n; i++)
         o << (i ? "," : "") << dy(x[i]);

      return o.str();
   }

   // semi-sparse result: values plus a flag telling whether the index set (if the vector claims to be set up)
   // covers every non-zero value
   std::string semi(const SSVectorBase<double>& x)
   {
      std::ostringstream o;
      o << dense(x);
      const char* ok = "ok";

      if(x.isSetup())
      {
         std::vector<char> seen(n, 0);

         if(x.size() > n)
            ok = "BAD-size";

         for(int k = 0; k < x.size() && k < 4 * n; k++)
         {
            int i = x.index(k);

            if(i < 0 || i >= n)
               ok = "BAD-range";
            else if(seen[i])
               ok = "BAD-duplicate";
            else
               seen[i] = 1;
         }

         for(int i = 0; i < n; i++)
            if(x[i] != 0.0 && !seen[i])
               ok = "BAD-missing";
      }

      o << " idx=" << (x.isSetup() ? ok : "unset");
      return o.str();
   }

   void run(const std::string& cmd, Toks& tk)
   {
      if(cmd == "COL")
      {
         int j = tk.nextInt();
         cols[j] = svec(tk);
         return;
      }

      if(cmd == "LOAD")
      {
         std::cout << "LOAD " << load() << std::endl;
         return;
      }

      if(!factorized)
      {
         std::cout << cmd << " skipped=notfactorized" << std::endl;
         return;
      }

      if(cmd == "SR")
      {
         DSVectorBase<double> bs = svec(tk);
         VectorBase<double> b(n), x(n);
         b.clear();
         b.assign(bs);
         f.solveRight(x, b);
         std::cout << "SR x=" << dense(x) << std::endl;
      }
      else if(cmd == "SRS")
      {
         DSVectorBase<double> bs = svec(tk);
         SSVD x(n, tol);
         f.solveRight(x, bs);
         std::cout << "SRS x=" << semi(x) << std::endl;
      }
      else if(cmd == "PREP")
      {
         // an update is prepared (solveRight4update) but never carried out: the prepared vector must not outlive a load()
         DSVectorBase<double> bs = svec(tk);
         SSVD x(n, tol);
         f.solveRight4update(x, bs);
         std::cout << "PREP x=" << semi(x) << std::endl;
      }
      else if(cmd == "SL")
      {
         DSVectorBase<double> bs = svec(tk);
         VectorBase<double> b(n), x(n);
         b.clear();
         b.assign(bs);
         f.solveLeft(x, b);
         std::cout << "SL x=" << dense(x) << std::endl;
      }
      else if(cmd == "SLS")
      {
         DSVectorBase<double> bs = svec(tk);
         SSVD x(n, tol);
         f.solveLeft(x, bs);
         std::cout << "SLS x=" << semi(x) << std::endl;
      }
      else if(cmd == "SL2" || cmd == "SL2S")
      {
         DSVectorBase<double> b1 = svec(tk), b2 = svec(tk);
         SSVD x(n, tol), r2(n, tol);
         r2.assign(b2);
         r2.setup();

         if(cmd == "SL2")
         {
            VectorBase<double> y(n);
            f.solveLeft(x, y, b1, r2);
            std::cout << cmd << " x=" << semi(x) << " y=" << dense(y) << std::endl;
         }
         else
         {
            SSVD y(n, tol);
            f.solveLeft(x, y, b1, r2);
            std::cout << cmd << " x=" << semi(x) << " y=" << semi(y) << std::endl;
         }
      }
      else if(cmd == "SL3" || cmd == "SL3S")
      {
         DSVectorBase<double> b1 = svec(tk), b2 = svec(tk), b3 = svec(tk);
         SSVD x(n, tol), r2(n, tol), r3(n, tol);
         r2.assign(b2);
         r2.setup();
         r3.assign(b3);
         r3.setup();

         if(cmd == "SL3")
         {
            VectorBase<double> y(n), z(n);
            f.solveLeft(x, y, z, b1, r2, r3);
            std::cout << cmd << " x=" << semi(x) << " y=" << dense(y) << " z=" << dense(z) << std::endl;
         }
         else
         {
            SSVD y(n, tol), z(n, tol);
            f.solveLeft(x, y, z, b1, r2, r3);
            std::cout << cmd << " x=" << semi(x) << " y=" << semi(y) << " z=" << semi(z) << std::endl;
         }
      }
      else if(cmd == "CHG")
      {
         int idx = tk.nextInt();
         std::string mode = tk.next();
         DSVectorBase<double> col = svec(tk);
         std::ostringstream o;
         SSVD x(n, tol);
         const SSVectorBase<double>* eta = nullptr;

         if(mode == "1")
         {
            f.solveRight4update(x, col);
            o << " x=" << semi(x);
         }
         else if(mode == "2" || mode == "4")
         {
            DSVectorBase<double> b2 = svec(tk);
            SSVD r2(n, tol);
            r2.assign(b2);
            r2.setup();

            if(mode == "2")
            {
               VectorBase<double> y(n);
               f.solve2right4update(x, y, col, r2);
               o << " x=" << semi(x) << " y=" << dense(y);
            }
            else
            {
               SSVD y(n, tol);
               f.solve2right4update(x, y, col, r2);
               o << " x=" << semi(x) << " y=" << semi(y);
            }
         }
         else if(mode == "3" || mode == "5")
         {
            DSVectorBase<double> b2 = svec(tk), b3 = svec(tk);
            SSVD r2(n, tol), r3(n, tol);
            r2.assign(b2);
            r2.setup();
            r3.assign(b3);
            r3.setup();

            if(mode == "3")
            {
               VectorBase<double> y(n), z(n);
               f.solve3right4update(x, y, z, col, r2, r3);
               o << " x=" << semi(x) << " y=" << dense(y) << " z=" << dense(z);
            }
            else
            {
               SSVD y(n, tol), z(n, tol);
               f.solve3right4update(x, y, z, col, r2, r3);
               o << " x=" << semi(x) << " y=" << semi(y) << " z=" << semi(z);
            }
         }
         else if(mode == "E")
         {
            // eta = B^-1 col computed with a plain solve (no update vector set up), then passed explicitly
            f.solveRight(x, col);
            x.setup();
            o << " x=" << semi(x);
            eta = &x;
         }

         // the matrix changes (as SPxBasisBase::change does before calling the factorization)
         nzCount = nzCount - cols[idx].size() + col.size();
         cols[idx] = col;
         ++updateCount;
         int refac = 0;
         int st;

         // the refactorization triggers of SPxBasisBase::change, in its order: memory growth, relative fill, absolute
         // number of non-zeros, number of updates
         if(double(f.memory()) > 1000 + f.dim() + lastMem * 1.5 || double(f.memory()) > lastFill * double(nzCount)
               || nzCount > lastNzCount || updateCount >= 200)
         {
            load();
            st = (int) f.status();
            std::cout << "CHG status=" << statName(st) << " refac=3" << o.str() << std::endl;
            return;
         }

         try
         {
            st = (int) f.change(idx, cols[idx], eta);
         }
         catch(const SPxException& e)
         {
            // singularity detected in the update: refactorize (the new matrix is already in place)
            refac = 2;
            o << " upd=EXC";
            std::string l = load();
            st = (int) f.status();
         }

         if(refac == 0 && (st != LUD::OK || f.stability() < minStab))
         {
            o << " upd=" << statName(st) << "/stab=" << dy(f.stability());
            refac = 1;
            load();
            st = (int) f.status();
         }

         std::cout << "CHG status=" << statName(st) << " refac=" << refac << o.str() << std::endl;
      }
      else
         std::cout << cmd << " unknown" << std::endl;
   }
};

// ---------------------------------------------------------------------------------------------------
// rational factorization
// ---------------------------------------------------------------------------------------------------
struct RationalCase
{
   int n;
   SLUFactorRational f;
   std::vector<DSVectorRational> cols;
   std::vector<const SVectorRational*> ptr;
   bool factorized;

   RationalCase(int dim, int utype) : n(dim), cols(dim), ptr(dim), factorized(false)
   {
      f.setUtype(utype == 0 ? SLUFactorRational::ETA : SLUFactorRational::FOREST_TOMLIN);
      f.setTimeLimit(-1.0);

      for(int j = 0; j < n; j++)
         ptr[j] = &cols[j];
   }

   DSVectorRational svec(Toks& tk)
   {
      int k = tk.nextInt();
      DSVectorRational v(k > 0 ? k : 1);

      for(int i = 0; i < k; i++)
      {
         int idx = tk.nextInt();
         Rational x = valR(tk.next());
         v.add(idx, x);
      }

      return v;
   }

   std::string dense(const VectorRational& x)
   {
      std::ostringstream o;

      for(int i = 0; i < n; i++)
         o << (i ? "," : "") << strR(x[i]);

      return o.str();
   }

   std::string semi(const SSVectorRational& x)
   {
      std::ostringstream o;
      o << dense(x);
      const char* ok = "ok";

      if(x.isSetup())
      {
         std::vector<char> seen(n, 0);

         if(x.size() > n)
            ok = "BAD-size";

         for(int k = 0; k < x.size() && k < 4 * n; k++)
         {
            int i = x.index(k);

            if(i < 0 || i >= n)
               ok = "BAD-range";
            else if(seen[i])
               ok = "BAD-duplicate";
            else
               seen[i] = 1;
         }

         for(int i = 0; i < n; i++)
            if(x[i] != 0 && !seen[i])
               ok = "BAD-missing";
      }

      o << " idx=" << (x.isSetup() ? ok : "unset");
      return o.str();
   }

   void run(const std::string& cmd, Toks& tk)
   {
      if(cmd == "COL")
      {
         int j = tk.nextInt();
         cols[j] = svec(tk);
         return;
      }

      if(cmd == "LOAD")
      {
         int st = (int) f.load(ptr.data(), n);
         factorized = (st == SLinSolverRational::OK);
         std::cout << "LOAD status=" << statName(st) << std::endl;
         return;
      }

      if(!factorized)
      {
         std::cout << cmd << " skipped=notfactorized" << std::endl;
         return;
      }

      if(cmd == "SR")
      {
         DSVectorRational bs = svec(tk);
         VectorRational b(n), x(n);
         b.clear();
         b.assign(bs);
         x.clear();
         f.solveRight(x, b);
         std::cout << "SR x=" << dense(x) << std::endl;
      }
      else if(cmd == "SRS")
      {
         DSVectorRational bs = svec(tk);
         SSVR x(n);
         f.solveRight(x, bs);
         std::cout << "SRS x=" << semi(x) << std::endl;
      }
      else if(cmd == "PREP")
      {
         DSVectorRational bs = svec(tk);
         SSVR x(n);
         f.solveRight4update(x, bs);
         std::cout << "PREP x=" << semi(x) << std::endl;
      }
      else if(cmd == "SL")
      {
         DSVectorRational bs = svec(tk);
         VectorRational b(n), x(n);
         b.clear();
         b.assign(bs);
         f.solveLeft(x, b);
         std::cout << "SL x=" << dense(x) << std::endl;
      }
      else if(cmd == "SLS")
      {
         DSVectorRational bs = svec(tk);
         SSVR x(n);
         f.solveLeft(x, bs);
         std::cout << "SLS x=" << semi(x) << std::endl;
      }
      else if(cmd == "SL2")
      {
         DSVectorRational b1 = svec(tk), b2 = svec(tk);
         SSVR x(n), r2(n);
         r2.assign(b2);
         r2.setup();
         VectorRational y(n);
         f.solveLeft(x, y, b1, r2);
         std::cout << cmd << " x=" << semi(x) << " y=" << dense(y) << std::endl;
      }
      else if(cmd == "SL3")
      {
         DSVectorRational b1 = svec(tk), b2 = svec(tk), b3 = svec(tk);
         SSVR x(n), r2(n), r3(n);
         r2.assign(b2);
         r2.setup();
         r3.assign(b3);
         r3.setup();
         VectorRational y(n), z(n);
         f.solveLeft(x, y, z, b1, r2, r3);
         std::cout << cmd << " x=" << semi(x) << " y=" << dense(y) << " z=" << dense(z) << std::endl;
      }
      else if(cmd == "CHG")
      {
         int idx = tk.nextInt();
         std::string mode = tk.next();
         DSVectorRational col = svec(tk);
         std::ostringstream o;
         SSVR x(n);
         const SSVectorRational* eta = nullptr;

         if(mode == "1")
         {
            f.solveRight4update(x, col);
            o << " x=" << semi(x);
         }
         else if(mode == "2")
         {
            DSVectorRational b2 = svec(tk);
            SSVR r2(n);
            r2.assign(b2);
            r2.setup();
            VectorRational y(n);
            f.solve2right4update(x, y, col, r2);
            o << " x=" << semi(x) << " y=" << dense(y);
         }
         else if(mode == "3")
         {
            DSVectorRational b2 = svec(tk), b3 = svec(tk);
            SSVR r2(n), r3(n);
            r2.assign(b2);
            r2.setup();
            r3.assign(b3);
            r3.setup();
            VectorRational y(n), z(n);
            f.solve3right4update(x, y, z, col, r2, r3);
            o << " x=" << semi(x) << " y=" << dense(y) << " z=" << dense(z);
         }
         else if(mode == "E")
         {
            f.solveRight(x, col);
            x.setup();
            o << " x=" << semi(x);
            eta = &x;
         }

         cols[idx] = col;
         int refac = 0;
         int st;

         try
         {
            st = (int) f.change(idx, cols[idx], eta);
         }
         catch(const SPxException& e)
         {
            refac = 2;
            o << " upd=EXC";
            st = (int) f.load(ptr.data(), n);
            factorized = (st == SLinSolverRational::OK);
         }

         if(refac == 0 && st != SLinSolverRational::OK)
         {
            o << " upd=" << statName(st);
            refac = 1;
            st = (int) f.load(ptr.data(), n);
            factorized = (st == SLinSolverRational::OK);
         }

         std::cout << "CHG status=" << statName(st) << " refac=" << refac << o.str() << std::endl;
      }
      else
         std::cout << cmd << " unknown" << std::endl;
   }
};

// ---------------------------------------------------------------------------------------------------
// rational basis-inverse queries of SoPlex after an exact solve
//   LP id m n sense
//   ROW i lhs rhs            ("-inf"/"inf" for infinite sides)
//   LPCOL j obj lo up k i1 v1 ...
//   SOLVE                     -> status, basis indices, the rational LP's columns, rows/cols of the inverse
//   QUERY                     -> the same without solving (cache invalidation after a modification)
//   CHGELEM i j v             -> changeElementRational
//   TIMES <svec>              -> getBasisInverseTimesVecRational
// ---------------------------------------------------------------------------------------------------
static std::ofstream devnull("/dev/null");

struct LPCase
{
   SoPlex sp;
   int m, n;
   bool ok;

   LPCase(int m_, int n_, int sense) : m(m_), n(n_), ok(false)
   {
      for(int v = SPxOut::ERROR; v <= SPxOut::INFO3; v++)
         sp.spxout.setStream((SPxOut::Verbosity)v, devnull);

      sp.setIntParam(SoPlex::VERBOSITY, SoPlex::VERBOSITY_ERROR);
      sp.setIntParam(SoPlex::READMODE, SoPlex::READMODE_RATIONAL);
      sp.setIntParam(SoPlex::SOLVEMODE, SoPlex::SOLVEMODE_RATIONAL);
      sp.setIntParam(SoPlex::CHECKMODE, SoPlex::CHECKMODE_RATIONAL);
      sp.setIntParam(SoPlex::SYNCMODE, SoPlex::SYNCMODE_AUTO);
      sp.setRealParam(SoPlex::FEASTOL, 0.0);
      sp.setRealParam(SoPlex::OPTTOL, 0.0);
      sp.setIntParam(SoPlex::OBJSENSE, sense > 0 ? SoPlex::OBJSENSE_MAXIMIZE : SoPlex::OBJSENSE_MINIMIZE);
   }

   Rational side(const std::string& s)
   {
      if(s == "inf")
         return Rational(sp.realParam(SoPlex::INFTY));

      if(s == "-inf")
         return Rational(-sp.realParam(SoPlex::INFTY));

      return valR(s);
   }

   std::string vecstr(const SSVectorRational& v, int len)
   {
      std::ostringstream o;

      for(int i = 0; i < len; i++)
         o << (i ? "," : "") << strR(v[i]);

      return o.str();
   }

   void run(const std::string& cmd, Toks& tk)
   {
      if(cmd == "ROW")
      {
         tk.nextInt();
         Rational l = side(tk.next());
         Rational r = side(tk.next());
         sp.addRowRational(LPRowRational(l, DSVectorRational(1), r));
      }
      else if(cmd == "LPCOL")
      {
         tk.nextInt();
         Rational obj = valR(tk.next());
         Rational lo = side(tk.next());
         Rational up = side(tk.next());
         int k = tk.nextInt();
         DSVectorRational v(k > 0 ? k : 1);

         for(int i = 0; i < k; i++)
         {
            int idx = tk.nextInt();
            v.add(idx, valR(tk.next()));
         }

         sp.addColRational(LPColRational(obj, v, up, lo));
      }
      else if(cmd == "SOLVE" || cmd == "QUERY")
      {
         std::cout << cmd;

         if(cmd == "SOLVE")
         {
            SPxSolver::Status st = sp.optimize();
            std::cout << " status=" << (int) st;
         }

         std::cout << " hasBasis=" << (sp.hasBasis() ? 1 : 0);
         DataArray<int> bind(m);
         ok = sp.hasBasis() && sp.getBasisIndRational(bind);
         std::cout << " bind=";

         if(ok)
            for(int i = 0; i < m; i++)
               std::cout << (i ? "," : "") << bind[i];
         else
            std::cout << "none";

         std::cout << std::endl;

         // the rational LP as the user sees it
         for(int j = 0; j < sp.numColsRational(); j++)
         {
            const SVectorRational& c = sp.colVectorRational(j);
            std::cout << "RCOL " << j << " " << c.size();

            for(int k = 0; k < c.size(); k++)
               std::cout << " " << c.index(k) << " " << strR(c.value(k));

            std::cout << std::endl;
         }

         if(!ok)
            return;

         for(int r = 0; r < m; r++)
         {
            SSVR v(m);
            bool b = sp.getBasisInverseRowRational(r, v);
            std::cout << "INVROW " << r << " ret=" << (b ? 1 : 0) << " v=" << vecstr(v, m) << std::endl;
         }

         for(int c = 0; c < m; c++)
         {
            SSVR v(m);
            bool b = sp.getBasisInverseColRational(c, v);
            std::cout << "INVCOL " << c << " ret=" << (b ? 1 : 0) << " v=" << vecstr(v, m) << std::endl;
         }
      }
      else if(cmd == "CHGELEM")
      {
         int i = tk.nextInt();
         int j = tk.nextInt();
         sp.changeElementRational(i, j, valR(tk.next()));
         std::cout << "CHGELEM hasBasis=" << (sp.hasBasis() ? 1 : 0) << std::endl;
      }
      else if(cmd == "RMCOL")
      {
         int j = tk.nextInt();
         sp.removeColRational(j);
         std::cout << "RMCOL hasBasis=" << (sp.hasBasis() ? 1 : 0) << " n=" << sp.numColsRational() << std::endl;
      }
      else if(cmd == "TIMES")
      {
         if(!ok)
         {
            std::cout << "TIMES skipped=nobasis" << std::endl;
            return;
         }

         int k = tk.nextInt();
         DSVectorRational v(k > 0 ? k : 1);

         for(int i = 0; i < k; i++)
         {
            int idx = tk.nextInt();
            v.add(idx, valR(tk.next()));
         }

         SSVR sol(m);
         bool b = sp.getBasisInverseTimesVecRational(v, sol);
         std::cout << "TIMES ret=" << (b ? 1 : 0) << " v=" << vecstr(sol, m) << std::endl;
      }
      else
         std::cout << cmd << " unknown" << std::endl;
   }
};

int main(int argc, char** argv)
{
   if(argc < 3 || std::string(argv[1]) != "run")
   {
      std::cerr << "usage: C10 run <casefile>" << std::endl;
      return 2;
   }

   std::ifstream in(argv[2]);
   std::string line;
   std::unique_ptr<DoubleCase> dc;
   std::unique_ptr<RationalCase> rc;
   std::unique_ptr<LPCase> lc;

   while(std::getline(in, line))
   {
      Toks tk(line);

      if(!tk.more())
         continue;

      std::string cmd = tk.next();

      try
      {
         if(cmd == "CASE")
         {
            std::string id = tk.next();
            std::string kind = tk.next();
            int n = tk.nextInt();
            int ut = tk.nextInt();
            std::string mk = tk.next();
            dc.reset();
            rc.reset();
            lc.reset();
            std::cout << "CASE " << id << std::endl;

            if(kind == "D")
               dc.reset(new DoubleCase(n, ut, vf::undy(mk)));
            else
               rc.reset(new RationalCase(n, ut));
         }
         else if(cmd == "LP")
         {
            std::string id = tk.next();
            int m = tk.nextInt();
            int n = tk.nextInt();
            int sense = tk.nextInt();
            dc.reset();
            rc.reset();
            lc.reset(new LPCase(m, n, sense));
            std::cout << "CASE " << id << std::endl;
         }
         else if(dc)
         {
            dc->run(cmd, tk);

            if(cmd != "COL")
               std::cout << "US " << (dc->f.usetup ? 1 : 0) << std::endl;     // the protocol flag (LUModel.v: usetup)
         }
         else if(rc)
         {
            rc->run(cmd, tk);

            if(cmd != "COL")
               std::cout << "US " << (rc->f.usetup ? 1 : 0) << std::endl;
         }
         else if(lc)
            lc->run(cmd, tk);
      }
      catch(const SPxException& e)
      {
         std::cout << cmd << " EXC " << e.what() << std::endl;
      }
      catch(const std::exception& e)
      {
         std::cout << cmd << " STDEXC " << e.what() << std::endl;
      }
   }

   return 0;
}
