// C03 harness: exact (rational) solves of LPs entered through the RATIONAL interface, and direct calls of the private
// decision kernels of the refinement loop (_computeBoundsViolation, _computeSidesViolation, _computeReducedCostViolation,
// _computeDualViolation, _isRefinementOver) on hand-written SolRational vectors and basis status arrays.
// All numbers cross as exact rationals "p/q"; "inf"/"-inf" denote +-realParam(INFTY) (the value SoPlex treats as infinite).
#include "soplex.h"
#include "common.hpp"
#include <fstream>
#include <map>
#include <sys/wait.h>
#include <unistd.h>

using namespace soplex;
typedef SoPlexBase<double> SP;
typedef SPxSolverBase<double> SX;

static std::ofstream devnull("/dev/null");
static void quiet(SP& s)
{
   for(int v = SPxOut::ERROR; v <= SPxOut::INFO3; v++)
      s.spxout.setStream((SPxOut::Verbosity)v, devnull);
}

struct CaseLP
{
   bool maxi;
   std::string offset;
   std::vector<std::string> obj, lo, up, lhs, rhs;
   std::vector<std::vector<std::pair<int, std::string>>> rows;
};

static Rational ratOf(const std::string& t)
{
   if(t == "inf") return Rational(double(infinity));

   if(t == "-inf") return Rational(-double(infinity));

   return Rational(t);
}

static double dblOf(const std::string& t)
{
   if(t == "inf") return infinity;

   if(t == "-inf") return -infinity;

   return double(Rational(t));
}

// the LP enters through addColRational / addRowRational (exact), or through the real interface for SYNCMODE_ONLYREAL
static void loadRational(SP& s, const CaseLP& L)
{
   s.setIntParam(SP::OBJSENSE, L.maxi ? SP::OBJSENSE_MAXIMIZE : SP::OBJSENSE_MINIMIZE);
   DSVectorRational empty(0);

   for(size_t j = 0; j < L.obj.size(); j++)
      s.addColRational(LPColRational(ratOf(L.obj[j]), empty, ratOf(L.up[j]), ratOf(L.lo[j])));

   for(size_t i = 0; i < L.rows.size(); i++)
   {
      DSVectorRational r((int)L.rows[i].size());

      for(auto& e : L.rows[i])
         r.add(e.first, ratOf(e.second));

      s.addRowRational(LPRowRational(ratOf(L.lhs[i]), r, ratOf(L.rhs[i])));
   }

   s.setRealParam(SP::OBJ_OFFSET, dblOf(L.offset));
}

static void loadReal(SP& s, const CaseLP& L)
{
   s.setIntParam(SP::OBJSENSE, L.maxi ? SP::OBJSENSE_MAXIMIZE : SP::OBJSENSE_MINIMIZE);
   DSVector empty(0);

   for(size_t j = 0; j < L.obj.size(); j++)
      s.addColReal(LPCol(dblOf(L.obj[j]), empty, dblOf(L.up[j]), dblOf(L.lo[j])));

   for(size_t i = 0; i < L.rows.size(); i++)
   {
      DSVector r((int)L.rows[i].size());

      for(auto& e : L.rows[i])
         r.add(e.first, dblOf(e.second));

      s.addRowReal(LPRow(dblOf(L.lhs[i]), r, dblOf(L.rhs[i])));
   }

   s.setRealParam(SP::OBJ_OFFSET, dblOf(L.offset));
}

static bool setParam(SP& s, const std::string& kv)
{
   size_t e = kv.find('=');
   std::string k = kv.substr(0, e), v = kv.substr(e + 1);
   auto& st = *s._currentSettings;

   for(int i = 0; i < SP::BOOLPARAM_COUNT; i++)
      if(st.boolParam.name[i] == k)
         return s.setBoolParam((SP::BoolParam)i, v == "1" || v == "true");

   for(int i = 0; i < SP::INTPARAM_COUNT; i++)
      if(st.intParam.name[i] == k)
         return s.setIntParam((SP::IntParam)i, atoi(v.c_str()));

   for(int i = 0; i < SP::REALPARAM_COUNT; i++)
      if(st.realParam.name[i] == k)
         return s.setRealParam((SP::RealParam)i, v.find(':') != std::string::npos ? vf::undy(v) : atof(v.c_str()));

   if(k == "seed")
   {
      s.setRandomSeed((unsigned)strtoul(v.c_str(), nullptr, 10));
      return true;
   }

   return false;
}

static const char* statusName(SX::Status st)
{
   switch(st)
   {
   case SX::ERROR: return "ERROR";
   case SX::NO_RATIOTESTER: return "NO_RATIOTESTER";
   case SX::NO_PRICER: return "NO_PRICER";
   case SX::NO_SOLVER: return "NO_SOLVER";
   case SX::NOT_INIT: return "NOT_INIT";
   case SX::ABORT_CYCLING: return "ABORT_CYCLING";
   case SX::ABORT_TIME: return "ABORT_TIME";
   case SX::ABORT_ITER: return "ABORT_ITER";
   case SX::ABORT_VALUE: return "ABORT_VALUE";
   case SX::SINGULAR: return "SINGULAR";
   case SX::NO_PROBLEM: return "NO_PROBLEM";
   case SX::REGULAR: return "REGULAR";
   case SX::RUNNING: return "RUNNING";
   case SX::UNKNOWN: return "UNKNOWN";
   case SX::OPTIMAL: return "OPTIMAL";
   case SX::UNBOUNDED: return "UNBOUNDED";
   case SX::INFEASIBLE: return "INFEASIBLE";
   case SX::INForUNBD: return "INForUNBD";
   case SX::OPTIMAL_UNSCALED_VIOLATIONS: return "OPTIMAL_UNSCALED_VIOLATIONS";
   default: return "OTHER";
   }
}

static std::string vecQ(const VectorRational& v, int n)
{
   std::string o;

   for(int i = 0; i < n; i++)
      o += v[i].str() + ",";

   return o.empty() ? "," : o;
}

static char statChar(SX::VarStatus s)
{
   switch(s)
   {
   case SX::ON_UPPER: return 'U';
   case SX::ON_LOWER: return 'L';
   case SX::FIXED: return 'F';
   case SX::ZERO: return 'Z';
   case SX::BASIC: return 'B';
   default: return '?';
   }
}

static SX::VarStatus statOf(char c)
{
   switch(c)
   {
   case 'U': return SX::ON_UPPER;
   case 'L': return SX::ON_LOWER;
   case 'F': return SX::FIXED;
   case 'Z': return SX::ZERO;
   case 'B': return SX::BASIC;
   default: return SX::UNDEFINED;
   }
}

static std::vector<Rational> parseVec(const std::string& s)
{
   std::vector<Rational> v;
   size_t p = 0;

   while(p < s.size())
   {
      size_t c = s.find(',', p);

      if(c == std::string::npos) c = s.size();

      if(c > p)
         v.push_back(Rational(s.substr(p, c - p)));

      p = c + 1;
   }

   return v;
}

static std::string qOrInf(SP& s, const Rational& r)
{
   if(r >= s._rationalPosInfty) return "inf";

   if(r <= s._rationalNegInfty) return "-inf";

   return r.str();
}

// the rational LP as the object holds it, read through the public rational accessors
static std::string dumpLPRational(SP& s)
{
   std::ostringstream o;

   if(s._rationalLP == nullptr)
      return "none";

   int m = s.numRowsRational(), n = s.numColsRational();
   o << "m=" << m << ";n=" << n << ";sense=" << (s.intParam(SP::OBJSENSE) == SP::OBJSENSE_MAXIMIZE ? "max" : "min");
   o << ";off=" << s._rationalLP->objOffset().str() << ";";

   for(int j = 0; j < n; j++)
      o << "C" << s.objRational(j).str() << "|" << qOrInf(s, s.lowerRational(j)) << "|" << qOrInf(s, s.upperRational(j)) << ";";

   for(int i = 0; i < m; i++)
   {
      o << "R" << qOrInf(s, s.lhsRational(i)) << "|" << qOrInf(s, s.rhsRational(i)) << "|";
      const SVectorRational& r = s.rowVectorRational(i);
      std::vector<std::pair<int, std::string>> es;

      for(int k = 0; k < r.size(); k++)
         if(r.value(k) != 0)
            es.push_back({r.index(k), r.value(k).str()});

      std::sort(es.begin(), es.end());

      for(auto& e : es)
         o << e.first << ":" << e.second << "|";

      o << ";";
   }

   return o.str();
}

static std::map<std::string, std::string> kvs(const std::vector<std::string>& t, size_t from, std::vector<std::string>& rest)
{
   std::map<std::string, std::string> m;

   for(size_t k = from; k < t.size(); k++)
   {
      size_t e = t[k].find('=');

      if(e == std::string::npos) continue;

      std::string key = t[k].substr(0, e);

      if(key == "sync" || key == "realfirst" || key == "setfile" || key == "twice")
         m[key] = t[k].substr(e + 1);
      else
         rest.push_back(t[k]);
   }

   return m;
}

static void reportSolve(SP& s, const std::string& tag)
{
   int n = s.numColsRational(), m = s.numRowsRational();
   auto st = s.status();
   printf("SOLVE %s status=%s hasSol=%d pfeas=%d dfeas=%d hasBasis=%d refs=%d iters=%d boosts=%d", tag.c_str(), statusName(st),
          s.hasSol() ? 1 : 0, s.isPrimalFeasible() ? 1 : 0, s.isDualFeasible() ? 1 : 0, s.hasBasis() ? 1 : 0,
          s._statistics->refinements, s._statistics->iterations, s._statistics->precBoosts);
   VectorRational x(n), sl(m), y(m), d(n), r(n), f(m);

   if(s.isPrimalFeasible() && s.getPrimalRational(x) && s.getSlacksRational(sl))
      printf(" x=%s s=%s", vecQ(x, n).c_str(), vecQ(sl, m).c_str());

   printf(" objq=%s", s.objValueRational().str().c_str());

   if(s.isDualFeasible() && s.getDualRational(y) && s.getRedCostRational(d))
      printf(" y=%s d=%s", vecQ(y, m).c_str(), vecQ(d, n).c_str());

   if(s.hasPrimalRay() && s.getPrimalRayRational(r))
      printf(" ray=%s", vecQ(r, n).c_str());

   if(s.hasDualFarkas() && s.getDualFarkasRational(f))
      printf(" farkas=%s", vecQ(f, m).c_str());

   if(s.hasBasis())
   {
      std::vector<SX::VarStatus> rs(m), cs(n);
      s.getBasis(rs.data(), cs.data());
      std::string a, b;

      for(int i = 0; i < m; i++) a.push_back(statChar(rs[i]));

      for(int j = 0; j < n; j++) b.push_back(statChar(cs[j]));

      printf(" brows=%s, bcols=%s,", a.c_str(), b.c_str());
   }

   printf("\n");
   fflush(stdout);
}

int main(int argc, char** argv)
{
   if(argc < 2)
   {
      fprintf(stderr, "usage: C03 <casefile>\n");
      return 2;
   }

   std::ifstream in(argv[1]);
   std::string line;
   CaseLP L;
   std::string id;

   while(std::getline(in, line))
   {
      auto t = vf::split(line);

      if(t.empty()) continue;

      if(t[0] == "LP")
      {
         L = CaseLP();
         id = t[1];
         L.maxi = t[2] == "max";
         L.offset = t[3];
         printf("CASE %s\n", id.c_str());
      }
      else if(t[0] == "C")
      {
         L.obj.push_back(t[1]);
         L.lo.push_back(t[2]);
         L.up.push_back(t[3]);
      }
      else if(t[0] == "R")
      {
         L.lhs.push_back(t[1]);
         L.rhs.push_back(t[2]);
         std::vector<std::pair<int, std::string>> r;

         for(size_t k = 3; k < t.size(); k++)
         {
            size_t c = t[k].find(':');
            r.push_back({atoi(t[k].substr(0, c).c_str()), t[k].substr(c + 1)});
         }

         L.rows.push_back(r);
      }
      else if(t[0] == "KERN")
      {
         // KERN tag cst= rst= ct= rt= x= s= y= d= ftol= otol= minir= nfail= reflimit= timelimit= st= si=
         try
         {
            std::map<std::string, std::string> a;

            for(size_t k = 2; k < t.size(); k++)
            {
               size_t e = t[k].find('=');

               if(e != std::string::npos) a[t[k].substr(0, e)] = t[k].substr(e + 1);
            }

            SP s;
            quiet(s);
            s.setIntParam(SP::SYNCMODE, SP::SYNCMODE_AUTO);
            s.setIntParam(SP::SOLVEMODE, SP::SOLVEMODE_RATIONAL);
            s.setRealParam(SP::FEASTOL, 0.0);
            s.setRealParam(SP::OPTTOL, 0.0);
            loadRational(s, L);
            int n = s.numColsRational(), m = s.numRowsRational();
            std::string ct, rt;

            for(int j = 0; j < n; j++) ct.push_back((char)('0' + (int)s._colTypes[j]));

            for(int i = 0; i < m; i++) rt.push_back((char)('0' + (int)s._rowTypes[i]));

            // optional override of the range-type arrays (the kernels read the types, not the bounds, for finiteness)
            if(a.count("ct") && a["ct"] != "-")
               for(int j = 0; j < n && j < (int)a["ct"].size(); j++)
                  s._colTypes[j] = (SP::RangeType)(a["ct"][j] - '0');

            if(a.count("rt") && a["rt"] != "-")
               for(int i = 0; i < m && i < (int)a["rt"].size(); i++)
                  s._rowTypes[i] = (SP::RangeType)(a["rt"][i] - '0');

            SolRational& sol = s._solRational;
            auto x = parseVec(a["x"]), sl = parseVec(a["s"]), y = parseVec(a["y"]), d = parseVec(a["d"]);
            sol._primal.reDim(n);
            sol._redCost.reDim(n);
            sol._slacks.reDim(m);
            sol._dual.reDim(m);

            for(int j = 0; j < n; j++)
            {
               sol._primal[j] = j < (int)x.size() ? x[j] : Rational(0);
               sol._redCost[j] = j < (int)d.size() ? d[j] : Rational(0);
            }

            for(int i = 0; i < m; i++)
            {
               sol._slacks[i] = i < (int)sl.size() ? sl[i] : Rational(0);
               sol._dual[i] = i < (int)y.size() ? y[i] : Rational(0);
            }

            s._basisStatusCols.reSize(n);
            s._basisStatusRows.reSize(m);

            for(int j = 0; j < n; j++) s._basisStatusCols[j] = statOf(j < (int)a["cst"].size() ? a["cst"][j] : 'B');

            for(int i = 0; i < m; i++) s._basisStatusRows[i] = statOf(i < (int)a["rst"].size() ? a["rst"][i] : 'B');

            s._modLower.reDim(n, false);
            s._modUpper.reDim(n, false);
            s._modLhs.reDim(m, false);
            s._modRhs.reDim(m, false);
            Rational bv, sv, rv, dv;
            const bool maximizing = (s.intParam(SP::OBJSENSE) == SP::OBJSENSE_MAXIMIZE);
            s._computeBoundsViolation(sol, bv);
            s._computeSidesViolation(sol, sv);
            s._computeReducedCostViolation(sol, rv, maximizing);
            s._computeDualViolation(sol, dv, maximizing);
            printf("KERN %s ctypes=%s, rtypes=%s, max=%d bv=%s sv=%s rv=%s dv=%s", t[1].c_str(), ct.c_str(), rt.c_str(), maximizing ? 1 : 0,
                   bv.str().c_str(), sv.str().c_str(), rv.str().c_str(), dv.str().c_str());
            // termination predicate
            s._rationalFeastol = Rational(a.count("ftol") ? a["ftol"] : std::string("0"));
            s._rationalOpttol = Rational(a.count("otol") ? a["otol"] : std::string("0"));

            if(a.count("reflimit")) s.setIntParam(SP::REFLIMIT, atoi(a["reflimit"].c_str()));

            if(a.count("timelimit")) s.setRealParam(SP::TIMELIMIT, atof(a["timelimit"].c_str()));

            if(a.count("iterlimit")) s.setIntParam(SP::ITERLIMIT, atoi(a["iterlimit"].c_str()));

            if(a.count("stallreflimit")) s.setIntParam(SP::STALLREFLIMIT, atoi(a["stallreflimit"].c_str()));

            // the counters _isSolveStopped compares with the limits (the solving timer is not running: elapsed time 0)
            if(a.count("iters")) s._statistics->iterations = atoi(a["iters"].c_str());

            if(a.count("refs")) s._statistics->refinements = atoi(a["refs"].c_str());

            if(a.count("stalls")) s._statistics->stallRefinements = atoi(a["stalls"].c_str());

            bool pf = a["pf0"] == "1", df = a["df0"] == "1", stt = a["st"] == "1", sti = a["si"] == "1";
            int minir = atoi(a["minir"].c_str()), nfail = atoi(a["nfail"].c_str());
            bool over = s._isRefinementOver(pf, df, bv, sv, rv, dv, minir, stt, sti, nfail);
            printf(" over=%d pf=%d df=%d st=%d si=%d", over ? 1 : 0, pf ? 1 : 0, df ? 1 : 0, stt ? 1 : 0, sti ? 1 : 0);
            // progress control of the refinement loop
            Rational mx;
            Rational best = (!a.count("best") || a["best"] == "inf") ? s._rationalPosInfty : Rational(a["best"]);
            const Rational factor(a.count("factor") ? a["factor"] : std::string("16"));
            int nf = nfail;
            s._checkRefinementProgress(bv, sv, rv, dv, mx, best, factor, nf);
            printf(" mx=%s best=%s nf=%d\n", mx.str().c_str(), best >= s._rationalPosInfty ? "inf" : best.str().c_str(), nf);
         }
         catch(const SPxException& e)
         {
            printf("KERN %s EXCEPTION what=%s\n", t[1].c_str(), vf::hex(e.what()).c_str());
         }
         catch(const std::exception& e)
         {
            printf("KERN %s EXCEPTION what=%s\n", t[1].c_str(), vf::hex(e.what()).c_str());
         }

         fflush(stdout);
      }
      else if(t[0] == "SOLVE")
      {
         // SOLVE tag sync=auto|manual|onlyreal [realfirst=1] [twice=1] [setfile=<path>] k=v ...
         // every solve runs in its own child process: a crash is attributed to exactly this run and cannot disturb later ones
         fflush(stdout);
         pid_t child = fork();

         if(child > 0)
         {
            int wst = 0;
            waitpid(child, &wst, 0);

            if(WIFSIGNALED(wst))
               printf("SOLVE %s status=CRASH signal=%d\n", t[1].c_str(), WTERMSIG(wst));
            else if(WIFEXITED(wst) && WEXITSTATUS(wst) != 0)
               printf("SOLVE %s status=CRASH exit=%d\n", t[1].c_str(), WEXITSTATUS(wst));

            fflush(stdout);
            continue;
         }

         alarm(40);   // a solve that ignores its time limit is killed (SIGALRM) and reported

         try
         {
            std::vector<std::string> rest;
            auto o = kvs(t, 2, rest);
            std::string sync = o.count("sync") ? o["sync"] : "auto";
            SP s;
            quiet(s);
            bool ok = true;

            if(o.count("setfile"))
               ok = s.loadSettingsFile(o["setfile"].c_str()) && ok;

            s.setIntParam(SP::SYNCMODE, sync == "auto" ? SP::SYNCMODE_AUTO : sync == "manual" ? SP::SYNCMODE_MANUAL : SP::SYNCMODE_ONLYREAL);

            if(!o.count("setfile"))
            {
               s.setIntParam(SP::SOLVEMODE, SP::SOLVEMODE_RATIONAL);
               s.setIntParam(SP::CHECKMODE, SP::CHECKMODE_RATIONAL);
               s.setRealParam(SP::FEASTOL, 0.0);
               s.setRealParam(SP::OPTTOL, 0.0);
            }

            for(auto& kv : rest)
               ok = setParam(s, kv) && ok;

            if(sync == "onlyreal")
               loadReal(s, L);
            else
               loadRational(s, L);

            if(sync == "manual")
               s.syncLPReal();

            printf("LPQ %s.in %s\n", t[1].c_str(), dumpLPRational(s).c_str());

            if(o.count("realfirst"))
            {
               // a floating-point solve first (same object), then the exact solve
               s.setIntParam(SP::SOLVEMODE, SP::SOLVEMODE_REAL);
               s.setRealParam(SP::FEASTOL, 1e-6);
               s.setRealParam(SP::OPTTOL, 1e-6);
               s.optimize();
               printf("REALFIRST %s status=%s scaled=%d\n", t[1].c_str(), statusName(s.status()), s._isRealLPScaled ? 1 : 0);
               s.setIntParam(SP::SOLVEMODE, SP::SOLVEMODE_RATIONAL);
               s.setRealParam(SP::FEASTOL, 0.0);
               s.setRealParam(SP::OPTTOL, 0.0);
            }

            s.optimize();

            if(o.count("twice"))
               s.optimize();

            reportSolve(s, t[1] + (ok ? "" : "!badparam"));
            printf("LPQ %s.out %s\n", t[1].c_str(), dumpLPRational(s).c_str());
         }
         catch(const SPxException& e)
         {
            printf("SOLVE %s status=EXCEPTION what=%s\n", t[1].c_str(), vf::hex(e.what()).c_str());
         }
         catch(const std::exception& e)
         {
            printf("SOLVE %s status=EXCEPTION what=%s\n", t[1].c_str(), vf::hex(e.what()).c_str());
         }

         fflush(stdout);

         if(child == 0)
            _exit(0);
      }
      else if(t[0] == "HIST")
      {
         // HIST tag sync=auto|manual k=v ... | step | step | ...      -- a history of exact solves on ONE SoPlex object
         //   step: parameter settings k=v, rational edits obj:j:v lhs:i:v rhs:i:v lo:j:v up:j:v, sense:max|min, mode:real
         //         (a floating-point solve instead of an exact one), then optimize()
         // after every step: SOLVE tag.k (everything the user can read), LPQ tag.k.out (the rational LP held), TYPES tag.k
         // (the private range-type arrays).  The whole history runs in one child process.
         fflush(stdout);
         pid_t child = fork();

         if(child > 0)
         {
            int wst = 0;
            waitpid(child, &wst, 0);

            if(WIFSIGNALED(wst))
               printf("HISTCRASH %s signal=%d\n", t[1].c_str(), WTERMSIG(wst));
            else if(WIFEXITED(wst) && WEXITSTATUS(wst) != 0)
               printf("HISTCRASH %s exit=%d\n", t[1].c_str(), WEXITSTATUS(wst));

            fflush(stdout);
            continue;
         }

         alarm(120);
         int step = -1;

         try
         {
            // split into segments at "|"
            std::vector<std::vector<std::string>> seg(1);

            for(size_t k = 2; k < t.size(); k++)
            {
               if(t[k] == "|")
                  seg.push_back(std::vector<std::string>());
               else
                  seg.back().push_back(t[k]);
            }

            std::string sync = "auto";
            SP s;
            quiet(s);
            bool ok = true;

            for(auto& w : seg[0])
               if(w.compare(0, 5, "sync=") == 0)
                  sync = w.substr(5);

            s.setIntParam(SP::SYNCMODE, sync == "manual" ? SP::SYNCMODE_MANUAL : SP::SYNCMODE_AUTO);
            s.setIntParam(SP::SOLVEMODE, SP::SOLVEMODE_RATIONAL);
            s.setIntParam(SP::CHECKMODE, SP::CHECKMODE_RATIONAL);
            s.setRealParam(SP::FEASTOL, 0.0);
            s.setRealParam(SP::OPTTOL, 0.0);

            for(auto& w : seg[0])
               if(w.compare(0, 5, "sync=") != 0)
                  ok = setParam(s, w) && ok;

            loadRational(s, L);

            if(sync == "manual")
               s.syncLPReal();

            for(size_t g = 1; g < seg.size(); g++)
            {
               step = (int)g - 1;
               bool realmode = false;
               bool edited = false;
               std::string stag = t[1] + "." + std::to_string(step);

               for(auto& w : seg[g])
               {
                  if(w.find('=') != std::string::npos)
                  {
                     ok = setParam(s, w) && ok;
                     continue;
                  }

                  size_t c1 = w.find(':');
                  size_t c2 = w.find(':', c1 + 1);
                  std::string kind = w.substr(0, c1);

                  if(kind == "sense")
                     s.setIntParam(SP::OBJSENSE, w.substr(c1 + 1) == "max" ? SP::OBJSENSE_MAXIMIZE : SP::OBJSENSE_MINIMIZE);
                  else if(kind == "mode")
                     realmode = (w.substr(c1 + 1) == "real");
                  else
                  {
                     int idx = atoi(w.substr(c1 + 1, c2 - c1 - 1).c_str());
                     Rational v = ratOf(w.substr(c2 + 1));
                     edited = true;

                     if(kind == "obj") s.changeObjRational(idx, v);
                     else if(kind == "lhs") s.changeLhsRational(idx, v);
                     else if(kind == "rhs") s.changeRhsRational(idx, v);
                     else if(kind == "lo") s.changeLowerRational(idx, v);
                     else if(kind == "up") s.changeUpperRational(idx, v);
                     else if(kind == "rmcol") s.removeColRational(idx);
                     else if(kind == "qbind")
                     {
                        // query the rational basis inverse between two solves (factorizes if necessary)
                        DataArray<int> qb(s.numRowsRational());
                        edited = false;

                        if(s.hasBasis())
                           (void) s.getBasisIndRational(qb);
                     }
                     else ok = false;
                  }
               }

               if(edited && sync == "manual")
                  s.syncLPReal();

               if(realmode)
               {
                  s.setIntParam(SP::SOLVEMODE, SP::SOLVEMODE_REAL);
                  s.setRealParam(SP::FEASTOL, 1e-6);
                  s.setRealParam(SP::OPTTOL, 1e-6);
                  s.optimize();
                  printf("REALSTEP %s status=%s scaled=%d\n", stag.c_str(), statusName(s.status()), s._isRealLPScaled ? 1 : 0);
                  s.setIntParam(SP::SOLVEMODE, SP::SOLVEMODE_RATIONAL);
                  s.setRealParam(SP::FEASTOL, 0.0);
                  s.setRealParam(SP::OPTTOL, 0.0);
               }
               else
               {
                  s.optimize();
                  reportSolve(s, stag + (ok ? "" : "!badparam"));
               }

               printf("LPQ %s.out %s\n", stag.c_str(), dumpLPRational(s).c_str());
               std::string ct, rt;

               for(int j = 0; j < s._colTypes.size(); j++) ct.push_back((char)('0' + (int)s._colTypes[j]));

               for(int i = 0; i < s._rowTypes.size(); i++) rt.push_back((char)('0' + (int)s._rowTypes[i]));

               printf("TYPES %s ctypes=%s, rtypes=%s,\n", stag.c_str(), ct.c_str(), rt.c_str());
               fflush(stdout);
            }
         }
         catch(const SPxException& e)
         {
            printf("SOLVE %s.%d status=EXCEPTION what=%s\n", t[1].c_str(), step, vf::hex(e.what()).c_str());
         }
         catch(const std::exception& e)
         {
            printf("SOLVE %s.%d status=EXCEPTION what=%s\n", t[1].c_str(), step, vf::hex(e.what()).c_str());
         }

         fflush(stdout);

         if(child == 0)
            _exit(0);
      }
   }

   return 0;
}
