// C12 harness: numeric literals through the LP / MPS readers and ratFromString, LP/MPS write -> read round trips,
// and the dual writer.  Compiled against /repo/src on every tree state (see vlib.build_harness).
//
//   C12 lit  <casefile> <tmpdir>     one line "L <hex literal>" per literal
//   C12 rt   <casefile> <tmpdir>     round-trip cases (format below)
//   C12 dual <casefile> <tmpdir>     same case format; writeDualFileReal, solve primal and dual
//
// Doubles are printed as exact dyadics m:e (vf::dy), rationals as canonical num/den, infinite sides as inf / -inf.
#include "soplex.h"
#include "common.hpp"
#include <csetjmp>
#include <csignal>
#include <fstream>
#include <sys/wait.h>
#include <unistd.h>

using namespace soplex;
using vf::dy;
typedef SoPlexBase<double> SP;

static std::ofstream devnull("/dev/null");
static void quiet(SP& s)
{
   s.setIntParam(SP::VERBOSITY, 0);

   for(int v = SPxOut::ERROR; v <= SPxOut::INFO3; v++)
      s.spxout.setStream((SPxOut::Verbosity)v, devnull);
}

static std::string qs(const Rational& r)
{
   if(r >= Rational(infinity))
      return "inf";

   if(r <= Rational(-infinity))
      return "-inf";

   Integer n = numerator(r), d = denominator(r);
   return n.str() + "/" + d.str();
}

// like qs but without the infinity threshold (for literal observations)
static std::string qraw(const Rational& r)
{
   Integer n = numerator(r), d = denominator(r);
   return n.str() + "/" + d.str();
}

static std::string ds(double x)
{
   if(x >= infinity)
      return "inf";

   if(x <= -infinity)
      return "-inf";

   return dy(x);
}

static Rational parseQ(const std::string& t)
{
   if(t == "inf")
      return Rational(infinity);

   if(t == "-inf")
      return Rational(-infinity);

   return Rational(t.c_str());
}

static double parseD(const std::string& t)
{
   if(t == "inf")
      return infinity;

   if(t == "-inf")
      return -infinity;

   return vf::undy(t);
}

static std::string slurp(const std::string& fn)
{
   std::ifstream f(fn, std::ios::binary);
   std::ostringstream o;
   o << f.rdbuf();
   return o.str();
}

static std::string clean(const char* w)
{
   std::string s(w);

   for(char& c : s)
      if(c == ' ' || c == '\n' || c == '\t')
         c = '_';

   return s.substr(0, 120);
}

// ------------------------------------------------------------------------------------------------------------------
// literal mode
// ------------------------------------------------------------------------------------------------------------------
// Input lines:  "L <hex>"  one literal, one LP file and one MPS file for it;
//               "B <hex> <hex> ..."  the same observations for many literals from one LP file and one MPS file with
//               one column / row / bound per literal (if such a file is rejected, each literal is tried on its own).
// Each literal is placed as objective coefficient, row coefficient, left-hand side and upper bound.

static sigjmp_buf fpe_env;
static volatile sig_atomic_t fpe_armed = 0;
static void fpe_handler(int)
{
   if(fpe_armed)
      siglongjmp(fpe_env, 1);

   _exit(99);
}

static void writeLitLP(const std::string& fn, const std::vector<std::string>& lits)
{
   std::ofstream f(fn);
   size_t K = lits.size();
   f << "Minimize\n obj:";

   for(size_t i = 0; i < K; i++)
      f << " " << lits[i] << " xc" << i << "\n";

   f << "Subject To\n";

   for(size_t i = 0; i < K; i++)
      f << " r" << i << ": " << lits[i] << " xc" << i << " + yc >= " << lits[i] << "\n";

   f << "Bounds\n";

   for(size_t i = 0; i < K; i++)
      f << " xc" << i << " <= " << lits[i] << "\n";

   f << "End\n";
}

static void writeLitMPS(const std::string& fn, const std::vector<std::string>& lits)
{
   std::ofstream f(fn);
   size_t K = lits.size();
   f << "NAME          LIT\nROWS\n N  objectiverow\n";

   for(size_t i = 0; i < K; i++)
      f << " G  rowlongname" << i << "\n";

   f << "COLUMNS\n";

   for(size_t i = 0; i < K; i++)
   {
      f << "    collongname" << i << "  objectiverow  " << lits[i] << "\n";
      f << "    collongname" << i << "  rowlongname" << i << "  " << lits[i] << "\n";
   }

   for(size_t i = 0; i < K; i++)
      f << "    ycolumnname  rowlongname" << i << "  1\n";

   f << "RHS\n";

   for(size_t i = 0; i < K; i++)
      f << "    RHS  rowlongname" << i << "  " << lits[i] << "\n";

   f << "BOUNDS\n";

   for(size_t i = 0; i < K; i++)
      f << " UP BND  collongname" << i << "  " << lits[i] << "\n";

   f << "ENDATA\n";
}

// read the file; returns "" and fills obs (one string per literal) or the failure token
static std::string readLits(SP*& s, bool rat, const std::string& fn, size_t K, std::vector<std::string>& obs)
{
   bool ok = false;
   obs.clear();
   fpe_armed = 1;

   if(sigsetjmp(fpe_env, 1) != 0)
   {
      fpe_armed = 0;
      // the object was left in the middle of a read: abandon it
      SP* fresh = new SP();
      quiet(*fresh);
      fresh->setIntParam(SP::READMODE, rat ? SP::READMODE_RATIONAL : SP::READMODE_REAL);
      fresh->setIntParam(SP::SYNCMODE, rat ? SP::SYNCMODE_AUTO : SP::SYNCMODE_ONLYREAL);
      s = fresh;
      return "SIGFPE";
   }

   try
   {
      ok = s->readFile(fn.c_str());
   }
   catch(const SPxException& e)
   {
      fpe_armed = 0;
      return "EXC:" + clean(e.what().c_str());
   }
   catch(const std::exception& e)
   {
      fpe_armed = 0;
      return std::string("EXC:") + clean(e.what());
   }
   catch(...)
   {
      fpe_armed = 0;
      return "EXC:unknown";
   }

   fpe_armed = 0;

   if(!ok)
      return "FAIL";

   int m = rat ? s->numRowsRational() : s->numRows();
   int n = rat ? s->numColsRational() : s->numCols();

   if(m != (int)K || n != (int)K + 1)
      return "SHAPE:" + std::to_string(m) + "x" + std::to_string(n);

   for(size_t i = 0; i < K; i++)
   {
      std::ostringstream o;

      if(rat)
      {
         Rational a = 0;
         const SVectorRational& r = s->rowVectorRational((int)i);

         for(int k = 0; k < r.size(); k++)
            if(r.index(k) == (int)i)
               a = r.value(k);

         o << qraw(s->objRational((int)i)) << "," << qraw(a) << "," << qraw(s->lhsRational((int)i)) << "," << qraw(s->upperRational((
                  int)i));
      }
      else
      {
         double a = 0;
         DSVectorBase<double> r;
         s->getRowVectorReal((int)i, r);

         for(int k = 0; k < r.size(); k++)
            if(r.index(k) == (int)i)
               a = r.value(k);

         o << dy(s->objReal((int)i)) << "," << dy(a) << "," << dy(s->lhsReal((int)i)) << "," << dy(s->upperReal((int)i));
      }

      obs.push_back(o.str());
   }

   return "";
}

static std::string rfsOf(const std::string& lit)
{
   std::string rfs;
   fpe_armed = 1;

   if(sigsetjmp(fpe_env, 1) != 0)
   {
      fpe_armed = 0;
      return "SIGFPE";
   }

   try
   {
      Rational r = ratFromString(lit.c_str());
      rfs = qraw(r);
   }
   catch(const std::exception& e)
   {
      rfs = std::string("EXC:") + clean(e.what());
   }
   catch(...)
   {
      rfs = "EXC:unknown";
   }

   fpe_armed = 0;
   return rfs;
}

static int litMode(const char* casefile, const std::string& tmp)
{
   std::ifstream in(casefile);
   std::string line;
   signal(SIGFPE, fpe_handler);
   SP* sq = new SP();
   SP* sr = new SP();
   quiet(*sq);
   quiet(*sr);
   sq->setIntParam(SP::READMODE, SP::READMODE_RATIONAL);
   sq->setIntParam(SP::SYNCMODE, SP::SYNCMODE_AUTO);
   sr->setIntParam(SP::READMODE, SP::READMODE_REAL);
   sr->setIntParam(SP::SYNCMODE, SP::SYNCMODE_ONLYREAL);
   std::string flp = tmp + "/lit.lp", fmps = tmp + "/lit.mps";

   while(std::getline(in, line))
   {
      auto t = vf::split(line);

      if(t.size() < 2 || (t[0] != "L" && t[0] != "B"))
         continue;

      std::vector<std::string> lits;

      for(size_t k = 1; k < t.size(); k++)
         lits.push_back(vf::unhex(t[k]));

      size_t K = lits.size();
      // four observation kinds: lpq mpsq lpr mpsr
      std::vector<std::vector<std::string>> res(4, std::vector<std::string>(K));
      std::vector<std::string> via(4, "batch");

      for(int kind = 0; kind < 4; kind++)
      {
         bool rat = kind < 2, lp = (kind % 2 == 0);
         SP*& s = rat ? sq : sr;
         const std::string& fn = lp ? flp : fmps;
         std::vector<std::string> obs;

         if(lp)
            writeLitLP(fn, lits);
         else
            writeLitMPS(fn, lits);

         std::string err = readLits(s, rat, fn, K, obs);

         if(err.empty())
         {
            res[kind] = obs;
            continue;
         }

         if(K == 1)
         {
            res[kind][0] = err;
            continue;
         }

         via[kind] = "single";

         for(size_t i = 0; i < K; i++)
         {
            std::vector<std::string> one(1, lits[i]);

            if(lp)
               writeLitLP(fn, one);
            else
               writeLitMPS(fn, one);

            err = readLits(s, rat, fn, 1, obs);
            res[kind][i] = err.empty() ? obs[0] : err;
         }
      }

      for(size_t i = 0; i < K; i++)
         std::cout << "L " << t[1 + i] << " rfs=" << rfsOf(lits[i]) << " lpq=" << res[0][i] << " mpsq=" << res[1][i] << " lpr=" <<
                   res[2][i] << " mpsr=" << res[3][i] << "\n";
   }

   std::cout.flush();
   return 0;
}

// ------------------------------------------------------------------------------------------------------------------
// round-trip and dual mode
// ------------------------------------------------------------------------------------------------------------------

struct Col
{
   std::string obj, lo, up, name;
   int isint;
};
struct Row
{
   std::string lhs, rhs, name;
   std::vector<std::pair<int, std::string>> es;
};
struct Case
{
   std::string id, fmt, mode;
   int names = 0, wzo = 0, unscale = 1, scale = 0;
   std::string sense = "min", offset = "0:0";
   std::vector<Col> cols;
   std::vector<Row> rows;
};

static int kv(const std::string& t, const char* key, int def)
{
   size_t n = strlen(key);

   if(t.compare(0, n, key) == 0 && t.size() > n && t[n] == '=')
      return atoi(t.c_str() + n + 1);

   return def;
}

static bool readCase(std::istream& in, Case& c)
{
   std::string line;
   c = Case();
   bool have = false;

   while(std::getline(in, line))
   {
      auto t = vf::split(line);

      if(t.empty())
         continue;

      if(t[0] == "CASE")
      {
         have = true;
         c.id = t[1];
         c.fmt = t[2];
         c.mode = t[3];

         for(size_t k = 4; k < t.size(); k++)
         {
            c.names = kv(t[k], "names", c.names);
            c.wzo = kv(t[k], "wzo", c.wzo);
            c.unscale = kv(t[k], "unscale", c.unscale);
            c.scale = kv(t[k], "scale", c.scale);
         }
      }
      else if(t[0] == "SENSE")
      {
         c.sense = t[1];
         c.offset = t[3];
      }
      else if(t[0] == "COL")
      {
         Col x;
         x.obj = t[1];
         x.lo = t[2];
         x.up = t[3];
         x.isint = atoi(t[4].c_str());
         x.name = t[5];
         c.cols.push_back(x);
      }
      else if(t[0] == "ROW")
      {
         Row r;
         r.lhs = t[1];
         r.rhs = t[2];
         r.name = t[3];
         int k = atoi(t[4].c_str());

         for(int j = 0; j < k; j++)
            r.es.push_back({atoi(t[5 + 2 * j].c_str()), t[6 + 2 * j]});

         c.rows.push_back(r);
      }
      else if(t[0] == "END")
         return have;
   }

   return false;
}

static void buildLP(SP& s, const Case& c)
{
   bool rat = c.mode == "rat";
   s.setIntParam(SP::SYNCMODE, rat ? SP::SYNCMODE_AUTO : SP::SYNCMODE_ONLYREAL);
   s.setIntParam(SP::OBJSENSE, c.sense == "max" ? SP::OBJSENSE_MAXIMIZE : SP::OBJSENSE_MINIMIZE);
   s.setRealParam(SP::OBJ_OFFSET, vf::undy(c.offset));

   if(rat)
   {
      DSVectorRational e(0);

      for(const Col& x : c.cols)
         s.addColRational(LPColRational(parseQ(x.obj), e, parseQ(x.up), parseQ(x.lo)));

      for(const Row& r : c.rows)
      {
         DSVectorRational v((int)r.es.size() + 1);

         for(auto& p : r.es)
            v.add(p.first, parseQ(p.second));

         s.addRowRational(LPRowRational(parseQ(r.lhs), v, parseQ(r.rhs)));
      }
   }
   else
   {
      DSVectorBase<double> e(0);

      for(const Col& x : c.cols)
         s.addColReal(LPColBase<double>(parseD(x.obj), e, parseD(x.up), parseD(x.lo)));

      for(const Row& r : c.rows)
      {
         DSVectorBase<double> v((int)r.es.size() + 1);

         for(auto& p : r.es)
            v.add(p.first, parseD(p.second));

         s.addRowReal(LPRowBase<double>(parseD(r.lhs), v, parseD(r.rhs)));
      }
   }
}

static std::string namesOf(const NameSet& ns)
{
   std::ostringstream o;

   for(int i = 0; i < ns.num(); i++)
      o << vf::hex(ns[i]) << ",";

   return o.str();
}

// user view of the LP through the public accessors
static std::string dumpReal(SP& s)
{
   std::ostringstream o;
   int m = s.numRows(), n = s.numCols();
   o << "m=" << m << " n=" << n << " sense=" << (s.intParam(SP::OBJSENSE) == SP::OBJSENSE_MAXIMIZE ? "max" : "min")
     << " off=" << dy(s.realParam(SP::OBJ_OFFSET)) << " obj=";

   for(int j = 0; j < n; j++)
      o << ds(s.objReal(j)) << ",";

   o << " lo=";

   for(int j = 0; j < n; j++)
      o << ds(s.lowerReal(j)) << ",";

   o << " up=";

   for(int j = 0; j < n; j++)
      o << ds(s.upperReal(j)) << ",";

   o << " lhs=";

   for(int i = 0; i < m; i++)
      o << ds(s.lhsReal(i)) << ",";

   o << " rhs=";

   for(int i = 0; i < m; i++)
      o << ds(s.rhsReal(i)) << ",";

   o << " A=";

   for(int i = 0; i < m; i++)
   {
      DSVectorBase<double> r;
      s.getRowVectorReal(i, r);
      std::vector<std::pair<int, double>> es;

      for(int k = 0; k < r.size(); k++)
         es.push_back({r.index(k), r.value(k)});

      std::sort(es.begin(), es.end());

      for(auto& e : es)
         o << i << "," << e.first << "," << dy(e.second) << ";";
   }

   return o.str();
}

// the stored (possibly scaled) real LP, read directly
static std::string dumpRaw(SP& s)
{
   std::ostringstream o;
   SPxLPBase<double>& lp = *s._realLP;
   int m = lp.nRows(), n = lp.nCols();
   double sg = lp.spxSense() == SPxLPBase<double>::MAXIMIZE ? 1.0 : -1.0;
   o << "m=" << m << " n=" << n << " sense=" << (sg > 0 ? "max" : "min") << " off=" << dy(lp.objOffset()) << " obj=";

   for(int j = 0; j < n; j++)
      o << ds(sg * lp.maxObj(j)) << ",";

   o << " lo=";

   for(int j = 0; j < n; j++)
      o << ds(lp.lower(j)) << ",";

   o << " up=";

   for(int j = 0; j < n; j++)
      o << ds(lp.upper(j)) << ",";

   o << " lhs=";

   for(int i = 0; i < m; i++)
      o << ds(lp.lhs(i)) << ",";

   o << " rhs=";

   for(int i = 0; i < m; i++)
      o << ds(lp.rhs(i)) << ",";

   o << " A=";

   for(int i = 0; i < m; i++)
   {
      const SVectorBase<double>& r = lp.rowVector(i);
      std::vector<std::pair<int, double>> es;

      for(int k = 0; k < r.size(); k++)
         es.push_back({r.index(k), r.value(k)});

      std::sort(es.begin(), es.end());

      for(auto& e : es)
         o << i << "," << e.first << "," << dy(e.second) << ";";
   }

   return o.str();
}

static std::string dumpRat(SP& s)
{
   std::ostringstream o;
   int m = s.numRowsRational(), n = s.numColsRational();
   o << "m=" << m << " n=" << n << " sense=" << (s.intParam(SP::OBJSENSE) == SP::OBJSENSE_MAXIMIZE ? "max" : "min")
     << " off=" << dy(s.realParam(SP::OBJ_OFFSET)) << " obj=";

   for(int j = 0; j < n; j++)
      o << qs(s.objRational(j)) << ",";

   o << " lo=";

   for(int j = 0; j < n; j++)
      o << qs(s.lowerRational(j)) << ",";

   o << " up=";

   for(int j = 0; j < n; j++)
      o << qs(s.upperRational(j)) << ",";

   o << " lhs=";

   for(int i = 0; i < m; i++)
      o << qs(s.lhsRational(i)) << ",";

   o << " rhs=";

   for(int i = 0; i < m; i++)
      o << qs(s.rhsRational(i)) << ",";

   o << " A=";

   for(int i = 0; i < m; i++)
   {
      const SVectorRational& r = s.rowVectorRational(i);
      std::vector<std::pair<int, std::string>> es;

      for(int k = 0; k < r.size(); k++)
         es.push_back({r.index(k), qraw(r.value(k))});

      std::sort(es.begin(), es.end());

      for(auto& e : es)
         o << i << "," << e.first << "," << e.second << ";";
   }

   return o.str();
}

static int rtMode(const char* casefile, const std::string& tmp)
{
   std::ifstream in(casefile);
   Case c;

   while(readCase(in, c))
   {
      std::cout << "CASE " << c.id << "\n";
      bool rat = c.mode == "rat";
      SP a;
      quiet(a);
      buildLP(a, c);
      NameSet rn, cn;
      DIdxSet iv;

      for(size_t j = 0; j < c.cols.size(); j++)
      {
         if(c.names)
            cn.add(c.cols[j].name.c_str());

         if(c.cols[j].isint)
            iv.addIdx((int)j);
      }

      if(c.names)
         for(const Row& r : c.rows)
            rn.add(r.name.c_str());

      std::cout << "ORIG " << (rat ? dumpRat(a) : dumpReal(a)) << "\n";
      int scaled = 0;

      if(!rat && c.scale)
      {
         a.setIntParam(SP::SCALER, c.scale);
         a.setBoolParam(SP::PERSISTENTSCALING, true);
         a.setIntParam(SP::SIMPLIFIER, SP::SIMPLIFIER_OFF);
         a.setIntParam(SP::ITERLIMIT, 50);

         try
         {
            a.optimize();
         }
         catch(...)
         {
         }

         scaled = a._realLP->isScaled() ? 1 : 0;
      }

      if(!rat)
         std::cout << "RAW scaled=" << scaled << " " << dumpRaw(a) << "\n";

      std::string fn = tmp + "/rt." + c.fmt;
      unlink(fn.c_str());
      std::string wr = "ok";

      try
      {
         bool ok;

         if(rat)
            ok = a.writeFileRational(fn.c_str(), c.names ? &rn : nullptr, c.names ? &cn : nullptr, iv.size() > 0 ? &iv : nullptr,
                                     c.wzo != 0);
         else
            ok = a.writeFileReal(fn.c_str(), c.names ? &rn : nullptr, c.names ? &cn : nullptr, iv.size() > 0 ? &iv : nullptr,
                                 c.unscale != 0, c.wzo != 0);

         if(!ok)
            wr = "false";
      }
      catch(const SPxException& e)
      {
         wr = "EXC:" + clean(e.what().c_str());
      }
      catch(const std::exception& e)
      {
         wr = std::string("EXC:") + clean(e.what());
      }

      std::cout << "WRITE " << wr << "\n";
      std::cout << "FILE " << vf::hex(slurp(fn).substr(0, 20000)) << "\n";


      if(wr != "ok")
         continue;

      SP b;
      quiet(b);
      b.setIntParam(SP::READMODE, rat ? SP::READMODE_RATIONAL : SP::READMODE_REAL);
      b.setIntParam(SP::SYNCMODE, rat ? SP::SYNCMODE_AUTO : SP::SYNCMODE_ONLYREAL);
      NameSet rn2, cn2;
      DIdxSet iv2;
      std::string rd = "ok";

      try
      {
         if(!b.readFile(fn.c_str(), &rn2, &cn2, &iv2))
            rd = "FAIL";
      }
      catch(const SPxException& e)
      {
         rd = "EXC:" + clean(e.what().c_str());
      }
      catch(const std::exception& e)
      {
         rd = std::string("EXC:") + clean(e.what());
      }

      std::cout << "READ " << rd << "\n";

      if(rd != "ok")
         continue;

      std::vector<int> ints;

      for(int k = 0; k < iv2.size(); k++)
         ints.push_back(iv2.index(k));

      std::sort(ints.begin(), ints.end());
      std::cout << "BACK " << (rat ? dumpRat(b) : dumpReal(b)) << " cn=" << namesOf(cn2) << " rn=" << namesOf(rn2) << " int=";

      for(int k : ints)
         std::cout << k << ",";

      std::cout << "\n";
   }

   std::cout.flush();
   return 0;
}

static const char* statusName(SPxSolverBase<double>::Status st)
{
   switch(st)
   {
   case SPxSolverBase<double>::OPTIMAL:
      return "OPTIMAL";

   case SPxSolverBase<double>::UNBOUNDED:
      return "UNBOUNDED";

   case SPxSolverBase<double>::INFEASIBLE:
      return "INFEASIBLE";

   case SPxSolverBase<double>::INForUNBD:
      return "INForUNBD";

   case SPxSolverBase<double>::OPTIMAL_UNSCALED_VIOLATIONS:
      return "OPTIMAL_UNSCALED_VIOLATIONS";

   default:
      break;
   }

   static char buf[32];
   snprintf(buf, sizeof(buf), "STATUS%d", (int)st);
   return buf;
}

static int dualMode(const char* casefile, const std::string& tmp)
{
   std::ifstream in(casefile);
   Case c;

   while(readCase(in, c))
   {
      std::cout << "CASE " << c.id << "\n";
      std::cout.flush();
      // one process per case: a crash of the writer is an observation, not the end of the run
      pid_t pid = fork();

      if(pid > 0)
      {
         int st = 0;
         waitpid(pid, &st, 0);

         if(WIFSIGNALED(st))
            std::cout << "WRITE CRASH:signal" << WTERMSIG(st) << "\n";
         else if(WEXITSTATUS(st) != 0)
            std::cout << "WRITE CRASH:exit" << WEXITSTATUS(st) << "\n";

         continue;
      }

      SP a;
      quiet(a);
      c.mode = "real";
      buildLP(a, c);
      std::string fn = tmp + "/dual." + c.fmt;
      unlink(fn.c_str());
      std::string wr = "ok";

      try
      {
         if(!a.writeDualFileReal(fn.c_str(), nullptr, nullptr, nullptr, c.wzo != 0))
            wr = "false";
      }
      catch(const SPxException& e)
      {
         wr = "EXC:" + clean(e.what().c_str());
      }
      catch(const std::exception& e)
      {
         wr = std::string("EXC:") + clean(e.what());
      }

      std::cout << "WRITE " << wr << "\n";
      std::cout << "FILE " << vf::hex(slurp(fn).substr(0, 20000)) << "\n";

      // the LP that buildDualProblem builds, exactly (compared with coq/DualModel.v: dual_of)
      try
      {
         SPxLPBase<double> dlp;
         a._realLP->buildDualProblem(dlp);
         std::cout << "DLP sense=" << (dlp.spxSense() == SPxLPBase<double>::MAXIMIZE ? "max" : "min") << " n=" << dlp.nCols() << " m=" << dlp.nRows()
                   << " cols=";

         for(int j = 0; j < dlp.nCols(); j++)
            std::cout << vf::dy(dlp.obj(j)) << "," << vf::dy(dlp.lower(j)) << "," << vf::dy(dlp.upper(j)) << ";";

         std::cout << " rows=";

         for(int i = 0; i < dlp.nRows(); i++)
         {
            std::cout << vf::dy(dlp.lhs(i)) << "," << vf::dy(dlp.rhs(i));
            const SVectorBase<double>& v = dlp.rowVector(i);

            for(int k = 0; k < v.size(); k++)
               std::cout << "," << v.index(k) << "=" << vf::dy(v.value(k));

            std::cout << ";";
         }

         std::cout << "\n";
      }
      catch(const std::exception& e)
      {
         std::cout << "DLP EXC\n";
      }

      if(wr != "ok")
      {
         std::cout.flush();
         _exit(0);
      }

      std::string ps = "EXC", dsn = "EXC";
      double pv = 0, dv = 0;

      // the simplifier is switched off in both solves: this leg compares the LP that was written with the LP it was
      // written from, it does not judge the presolver (C08)
      a.setIntParam(SP::SIMPLIFIER, SP::SIMPLIFIER_OFF);

      try
      {
         ps = statusName(a.optimize());
         pv = a.objValueReal();
      }
      catch(...)
      {
      }

      SP b;
      quiet(b);
      b.setIntParam(SP::READMODE, SP::READMODE_REAL);
      b.setIntParam(SP::SYNCMODE, SP::SYNCMODE_ONLYREAL);
      b.setIntParam(SP::SIMPLIFIER, SP::SIMPLIFIER_OFF);
      bool ok = false;

      try
      {
         ok = b.readFile(fn.c_str());
      }
      catch(...)
      {
      }

      if(!ok)
      {
         std::cout << "READ FAIL\n";
         std::cout.flush();
         _exit(0);
      }

      std::cout << "READ ok\n";

      try
      {
         dsn = statusName(b.optimize());
         dv = b.objValueReal();
      }
      catch(...)
      {
      }

      std::cout << "P " << ps << " " << dy(pv) << "\nD " << dsn << " " << dy(dv) << "\n";
      std::cout.flush();
      _exit(0);
   }

   std::cout.flush();
   return 0;
}

int main(int argc, char** argv)
{
   if(argc < 4)
   {
      fprintf(stderr, "usage: C12 lit|rt|dual <casefile> <tmpdir>\n");
      return 2;
   }

   std::string mode = argv[1], tmp = argv[3];

   if(mode == "lit")
      return litMode(argv[2], tmp);

   if(mode == "rt")
      return rtMode(argv[2], tmp);

   if(mode == "dual")
      return dualMode(argv[2], tmp);

   return 2;
}
