// C17 harness: determinism of solves and equality/independence of copies.
// Input: the LP block format of harness/C01.cpp, followed by commands
//   DET <id> k=v ...            two fresh objects (heap perturbed in between) + re-solve after clearBasis
//   COPY <id> <mode> <point> <mut> k=v ...
//        mode  : ctor | assign | assign-used     (copy constructor, assignment to a fresh object, to a used object)
//        point : nosolve | solved | solved-mod    (when the copy is taken)
//        mut   : which mutation is applied to one side afterwards (params | lp | solve | destroy | all)
#include "soplex.h"
#include "common.hpp"
#include <fstream>
#include <memory>
#include <sys/wait.h>
#include <unistd.h>

using namespace soplex;
using vf::dy;
typedef SoPlexBase<double> SP;

static std::ofstream devnull("/dev/null");
static void quiet(SP& s)
{
   for(int v = SPxOut::ERROR; v <= SPxOut::INFO3; v++)
      s.spxout.setStream((SPxOut::Verbosity)v, devnull);
}

struct CaseLP
{
   bool maxi;
   std::string offset;
   std::vector<std::string> obj, lo, up, lhs, rhs;
   std::vector<std::vector<std::pair<int, std::string>>> rows;
};

static double num(const std::string& t)
{
   if(t == "inf") return infinity;

   if(t == "-inf") return -infinity;

   size_t c = t.find('/');

   if(c == std::string::npos) return atof(t.c_str());

   return atof(t.substr(0, c).c_str()) / atof(t.substr(c + 1).c_str());
}

static void load(SP& s, const CaseLP& L)
{
   s.setIntParam(SP::OBJSENSE, L.maxi ? SP::OBJSENSE_MAXIMIZE : SP::OBJSENSE_MINIMIZE);
   DSVector empty(0);

   for(size_t j = 0; j < L.obj.size(); j++)
      s.addColReal(LPCol(num(L.obj[j]), empty, num(L.up[j]), num(L.lo[j])));

   for(size_t i = 0; i < L.rows.size(); i++)
   {
      DSVector r((int)L.rows[i].size());

      for(auto& e : L.rows[i])
         r.add(e.first, num(e.second));

      s.addRowReal(LPRow(num(L.lhs[i]), r, num(L.rhs[i])));
   }

   s.setRealParam(SP::OBJ_OFFSET, num(L.offset));
}

static bool setParam(SP& s, const std::string& kv)
{
   size_t e = kv.find('=');
   std::string k = kv.substr(0, e), v = kv.substr(e + 1);
   auto& st = *s._currentSettings;

   for(int i = 0; i < SP::BOOLPARAM_COUNT; i++)
      if(st.boolParam.name[i] == k)
         return s.setBoolParam((SP::BoolParam)i, v == "1");

   for(int i = 0; i < SP::INTPARAM_COUNT; i++)
      if(st.intParam.name[i] == k)
         return s.setIntParam((SP::IntParam)i, atoi(v.c_str()));

   for(int i = 0; i < SP::REALPARAM_COUNT; i++)
      if(st.realParam.name[i] == k)
         return s.setRealParam((SP::RealParam)i, atof(v.c_str()));

   if(k == "seed")
   {
      s.setRandomSeed((unsigned)strtoul(v.c_str(), nullptr, 10));
      return true;
   }

   return false;
}

// ---- observations, field by field -------------------------------------------------------------------------------
typedef std::vector<std::pair<std::string, std::string>> Obs;

static std::string vecD(const VectorBase<double>& v)
{
   std::string o;

   for(int i = 0; i < v.dim(); i++)
      o += dy(v[i]) + ",";

   return o;
}

static Obs observe(SP& s, bool withIters)
{
   Obs o;
   int n = s.numCols(), m = s.numRows();
   o.push_back({"lp", vf::dumpLPReal(s)});
   std::ostringstream p;

   for(int i = 0; i < SP::BOOLPARAM_COUNT; i++) p << (s.boolParam((SP::BoolParam)i) ? 1 : 0);

   p << "|";

   for(int i = 0; i < SP::INTPARAM_COUNT; i++) p << s.intParam((SP::IntParam)i) << ",";

   p << "|";

   for(int i = 0; i < SP::REALPARAM_COUNT; i++) p << dy(s.realParam((SP::RealParam)i)) << ",";

   p << "|" << s.randomSeed();
   o.push_back({"params", p.str()});
   auto tol = s.tolerances();
   o.push_back({"tolerances", dy(tol->feastol()) + "," + dy(tol->opttol()) + "," + dy(tol->epsilon()) + "," + dy(tol->floatingPointFeastol()) + "," + dy(
                   tol->floatingPointOpttol())});
   o.push_back({"solver_tolerances", dy(s._solver.tolerances()->feastol()) + "," + dy(s._solver.tolerances()->epsilon())});
   o.push_back({"status", std::to_string((int)s.status())});
   o.push_back({"flags", std::string(s.hasSol() ? "S" : "-") + (s.isPrimalFeasible() ? "P" : "-") + (s.isDualFeasible() ? "D" : "-") + (s.hasBasis() ? "B" : "-")
                + (s.hasPrimalRay() ? "R" : "-") + (s.hasDualFarkas() ? "F" : "-")});

   if(withIters)
      o.push_back({"iters", std::to_string(s.numIterations())});

   VectorBase<double> x(n), sl(m), y(m), d(n);

   if(s.isPrimalFeasible() && s.getPrimal(x) && s.getSlacksReal(sl))
   {
      o.push_back({"obj", dy(s.objValueReal())});
      o.push_back({"x", vecD(x)});
      o.push_back({"s", vecD(sl)});
   }

   if(s.isDualFeasible() && s.getDual(y) && s.getRedCost(d))
   {
      o.push_back({"y", vecD(y)});
      o.push_back({"d", vecD(d)});
   }

   // certificates of infeasibility / unboundedness are part of the solution a copy must carry
   if(s.hasPrimalRay())
   {
      VectorBase<double> ray(n);
      bool ok = s.getPrimalRay(ray);
      o.push_back({"ray", std::string(ok ? "1:" : "0:") + vecD(ray)});
   }

   if(s.hasDualFarkas())
   {
      VectorBase<double> far(m);
      bool ok = s.getDualFarkas(far);
      o.push_back({"farkas", std::string(ok ? "1:" : "0:") + vecD(far)});
   }

   if(s.hasBasis())
   {
      std::vector<SPxSolverBase<double>::VarStatus> rs(m), cs(n);
      s.getBasis(rs.data(), cs.data());
      std::string b;

      for(int i = 0; i < m; i++) b += std::to_string((int)rs[i]);

      b += "|";

      for(int j = 0; j < n; j++) b += std::to_string((int)cs[j]);

      o.push_back({"basis", b});
   }

   if(s.intParam(SP::SYNCMODE) != SP::SYNCMODE_ONLYREAL)
   {
      std::string r = std::to_string(s.numRowsRational()) + "x" + std::to_string(s.numColsRational()) + ":";

      for(int j = 0; j < s.numColsRational(); j++)
         r += s.objRational(j).str() + "[" + s.lowerRational(j).str() + "," + s.upperRational(j).str() + "];";

      for(int i = 0; i < s.numRowsRational(); i++)
         r += s.lhsRational(i).str() + "<" + s.rhsRational(i).str() + ";";

      o.push_back({"ratlp", r});
   }

   return o;
}

#include "gen/C17_members.inc"

static std::string diffMembers(const std::string& a, const std::string& b)
{
   // "name=value;name=value;..." with identical name order
   std::string d;
   size_t i = 0, j = 0;

   while(i < a.size() && j < b.size())
   {
      size_t ei = a.find(';', i), ej = b.find(';', j);
      std::string fa = a.substr(i, ei - i), fb = b.substr(j, ej - j);

      if(fa != fb)
         d += (d.empty() ? "" : ",") + fa.substr(0, fa.find('='));

      i = ei + 1;
      j = ej + 1;
   }

   return d.empty() ? "none" : d;
}

static std::string diff(const Obs& a, const Obs& b)
{
   std::string d;
   size_t i = 0, j = 0;

   // fields are emitted in a fixed order; a missing field counts as a difference
   std::vector<std::string> keys;

   for(auto& p : a) keys.push_back(p.first);

   for(auto& p : b)
      if(std::find(keys.begin(), keys.end(), p.first) == keys.end()) keys.push_back(p.first);

   for(auto& k : keys)
   {
      std::string va = "<absent>", vb = "<absent>";

      for(auto& p : a) if(p.first == k) va = p.second;

      for(auto& p : b) if(p.first == k) vb = p.second;

      if(va != vb)
         d += (d.empty() ? "" : ",") + k;
   }

   (void)i;
   (void)j;
   return d.empty() ? "none" : d;
}

static void perturbHeap(unsigned seed)
{
   // interposed allocations of varying size so that the second object lives at different addresses
   static std::vector<std::unique_ptr<char[]>> keep;
   unsigned x = seed * 2654435761u + 12345u;

   for(int k = 0; k < 40; k++)
   {
      x = x * 1664525u + 1013904223u;
      size_t sz = 16 + (x >> 8) % 5000;
      std::unique_ptr<char[]> p(new char[sz]);
      memset(p.get(), (int)(x & 0xff), sz);

      if(k % 3 == 0)
         keep.push_back(std::move(p));
   }

   if(keep.size() > 400)
      keep.erase(keep.begin(), keep.begin() + 200);
}

static void mutate(SP& s, const std::string& mut, bool destroyOnly = false)
{
   if(mut == "params" || mut == "all")
   {
      s.setRealParam(SP::FEASTOL, 1e-3);
      s.setRealParam(SP::OPTTOL, 1e-4);
      s.setRealParam(SP::EPSILON_ZERO, 1e-12);
      s.setRealParam(SP::FPFEASTOL, 1e-5);
      s.setIntParam(SP::ITERLIMIT, 7);
      // (switching the scaler OFF while the stored LP is persistently scaled makes the accessors dereference a null
      //  scaler - a separate finding, not exercised here)
      s.setIntParam(SP::SCALER, s.intParam(SP::SCALER) == 0 ? 0 : (s.intParam(SP::SCALER) % 6) + 1);
      s.setIntParam(SP::PRICER, (s.intParam(SP::PRICER) + 1) % 6);
      s.setBoolParam(SP::ROWBOUNDFLIPS, !s.boolParam(SP::ROWBOUNDFLIPS));
      s.setRandomSeed(s.randomSeed() + 17);
   }

   if(mut == "lp" || mut == "all")
   {
      if(s.numCols() > 0)
      {
         s.changeObjReal(0, s.objReal(0) + 1.0);
         s.changeUpperReal(0, s.upperReal(0) >= infinity ? 5.0 : s.upperReal(0) + 1.0);
      }

      if(s.numRows() > 0)
         s.changeRhsReal(0, s.rhsReal(0) >= infinity ? 9.0 : s.rhsReal(0) + 2.0);

      DSVector r(1);

      if(s.numCols() > 0) r.add(0, 1.0);

      s.addRowReal(LPRow(-3.0, r, 50.0));

      if(s.numRows() > 1)
         s.removeRowReal(0);

      s.setRealParam(SP::OBJ_OFFSET, s.realParam(SP::OBJ_OFFSET) + 3.5);
   }

   if(mut == "solve" || mut == "all")
   {
      s.clearBasis();
      s.optimize();
   }
}

int main(int argc, char** argv)
{
   if(argc < 2)
   {
      fprintf(stderr, "usage: C17 <casefile>\n");
      return 2;
   }

   std::ifstream in(argv[1]);
   std::string line;
   CaseLP L;
   std::string id;
   unsigned counter = 0;

   while(std::getline(in, line))
   {
      auto t = vf::split(line);

      if(t.empty()) continue;

      if(t[0] == "LP")
      {
         L = CaseLP();
         id = t[1];
         L.maxi = t[2] == "max";
         L.offset = t[3];
         printf("CASE %s\n", id.c_str());
      }
      else if(t[0] == "C")
      {
         L.obj.push_back(t[1]);
         L.lo.push_back(t[2]);
         L.up.push_back(t[3]);
      }
      else if(t[0] == "R")
      {
         L.lhs.push_back(t[1]);
         L.rhs.push_back(t[2]);
         std::vector<std::pair<int, std::string>> r;

         for(size_t k = 3; k < t.size(); k++)
         {
            size_t c = t[k].find(':');
            r.push_back({atoi(t[k].substr(0, c).c_str()), t[k].substr(c + 1)});
         }

         L.rows.push_back(r);
      }
      else if(t[0] == "RNG")
      {
         // the generator class alone: RNG <id> S<seed>|N ...   (one line per operation: members and the returned value)
         Random g;
         for(size_t k = 2; k < t.size(); k++)
         {
            double v = -1.0;
            bool isnext = t[k] == "N";

            if(isnext)
               v = g.next();
            else
               g.setSeed((uint32_t) strtoul(t[k].c_str() + 1, nullptr, 10));

            printf("R %s %d %u %u %u %u %u %s\n", t[1].c_str(), (int)(k - 2), g.seedshift, g.lin_seed, g.xor_seed, g.mwc_seed, g.cst_seed,
                   isnext ? vf::dy(v).c_str() : "-");
         }
      }
      else if(t[0] == "RNGS")
      {
         // the generator inside a solver object: RNGS <id> <seed> <n> <lo> <hi>: fresh, after setRandomSeed, after n draws from [lo,hi],
         // in a copy-constructed and in an assigned object, after re-seeding through the settings parser
         auto show = [&](const char* what, SP& s)
         {
            Random& g = s._solver.random;
            printf("RS %s %s %u %u %u %u %u %u\n", t[1].c_str(), what, g.seedshift, g.lin_seed, g.xor_seed, g.mwc_seed, g.cst_seed, s.randomSeed());
         };
         unsigned seed = (unsigned) strtoul(t[2].c_str(), nullptr, 10);
         int n = atoi(t[3].c_str());
         double lo = vf::undy(t[4]), hi = vf::undy(t[5]);
         SP a;
         quiet(a);
         show("fresh", a);
         a.setRandomSeed(seed);
         show("seeded", a);
         bool inrange = true;

         for(int k = 0; k < n; k++)
         {
            // the interval is proved in exact arithmetic (C17_rng_next_in_range); the two roundings of
            // minimum * (1 - r) + maximum * r may leave it by a few units in the last place (seen with lo = hi = -1e300)
            double v = a._solver.random.next(lo, hi);
            double slack = 8 * 2.220446049250313e-16 * std::max(std::fabs(lo), std::fabs(hi));
            inrange = inrange && v >= lo - slack && v <= hi + slack;
         }

         printf("RS %s inrange %d\n", t[1].c_str(), (int) inrange);
         show("drawn", a);
         {
            SP b(a);
            show("copy", b);
            SP c;
            quiet(c);
            c.setRandomSeed(seed + 17);
            (void) c._solver.random.next();
            c = a;
            show("assigned", c);
            char buf[64];
            snprintf(buf, sizeof(buf), "uint:random_seed = %u", seed);
            c.parseSettingsString(buf);
            show("parsed", c);
         }
      }
      else if(t[0] == "DET")
      {
         try
         {
            Obs o1, o2, o3, o4;
            {
               SP a;
               quiet(a);

               for(size_t k = 2; k < t.size(); k++) setParam(a, t[k]);

               load(a, L);
               a.optimize();
               o1 = observe(a, true);
               // same object again after clearing the basis
               a.clearBasis();
               a.optimize();
               o3 = observe(a, true);
               // diagnosis: the same again with the random generator put back to its seed
               a.clearBasis();
               a.setRandomSeed(a.randomSeed());
               a.optimize();
               o4 = observe(a, true);
            }
            perturbHeap(++counter);
            {
               std::unique_ptr<SP> b(new SP());
               quiet(*b);

               for(size_t k = 2; k < t.size(); k++) setParam(*b, t[k]);

               load(*b, L);
               b->optimize();
               o2 = observe(*b, true);
            }
            printf("DET %s two_objects=%s resolve_after_clearBasis=%s resolve_reseeded=%s status=%s\n", t[1].c_str(), diff(o1, o2).c_str(),
                   diff(o1, o3).c_str(), diff(o1, o4).c_str(), o1[4].second.c_str());
         }
         catch(const std::exception& e)
         {
            printf("DET %s exception\n", t[1].c_str());
         }

         fflush(stdout);
      }
      else if(t[0] == "COPY")
      {
         try
         {
            std::string mode = t[2], point = t[3], mut = t[4];
            std::unique_ptr<SP> a(new SP());
            quiet(*a);

            for(size_t k = 5; k < t.size(); k++) setParam(*a, t[k]);

            load(*a, L);

            if(point != "nosolve")
               a->optimize();

            if(point == "solved-mod" && a->numCols() > 0)
               a->changeLowerReal(0, a->lowerReal(0) <= -infinity ? -8.0 : a->lowerReal(0) - 1.0);

            std::unique_ptr<SP> b;

            if(mode == "ctor")
               b.reset(new SP(*a));
            else
            {
               b.reset(new SP());

               if(mode == "assign-used")
               {
                  // the target already holds another LP, settings and a solution
                  DSVector e(0);
                  b->addColReal(LPCol(1.0, e, 3.0, 0.0));
                  b->setIntParam(SP::SCALER, 3);
                  b->setIntParam(SP::SYNCMODE, SP::SYNCMODE_AUTO);
                  quiet(*b);
                  b->optimize();
               }

               *b = *a;
            }

            quiet(*b);
            Obs oa = observe(*a, false), ob = observe(*b, false);
            std::string eq = diff(oa, ob);
            // every scalar member of the simplex solver (scraped from spxsolver.h) must have been copied
            std::string mem = diffMembers(dumpSolverMembers(*a), dumpSolverMembers(*b));
            // a copy must also BEHAVE like its source: solve a twin of the source (built by the same history) and a second
            // copy of the source, both from a cleared basis, and compare everything including the iteration count
            std::string twinDiff = "none";
            {
               std::unique_ptr<SP> a2(new SP());
               quiet(*a2);

               for(size_t k = 5; k < t.size(); k++) setParam(*a2, t[k]);

               load(*a2, L);

               if(point != "nosolve")
                  a2->optimize();

               if(point == "solved-mod" && a2->numCols() > 0)
                  a2->changeLowerReal(0, a2->lowerReal(0) <= -infinity ? -8.0 : a2->lowerReal(0) - 1.0);

               std::unique_ptr<SP> b2;

               if(mode == "ctor")
                  b2.reset(new SP(*a));
               else
               {
                  b2.reset(new SP());
                  *b2 = *a;
               }

               quiet(*b2);
               a2->clearBasis();
               a2->optimize();
               b2->clearBasis();
               b2->optimize();
               twinDiff = diff(observe(*a2, true), observe(*b2, true));
            }
            // mutate the copy, the source must not notice
            std::string indepSrc, indepCopy;
            {
               mutate(*b, mut);
               Obs oa2 = observe(*a, false);
               indepSrc = diff(oa, oa2);
            }
            // mutate the source, the (already mutated) copy must not notice
            {
               Obs ob1 = observe(*b, false);
               mutate(*a, mut == "destroy" ? "all" : mut);
               Obs ob2 = observe(*b, false);
               indepCopy = diff(ob1, ob2);
            }
            // destroy the source, keep using the copy - in a child process, so that a use-after-free cannot take the
            // harness down
            fflush(stdout);
            int st = -999;
            pid_t pid = fork();

            if(pid == 0)
            {
               a.reset();
               perturbHeap(++counter);
               b->clearBasis();
               b->optimize();
               int code = (int)b->status();
               Obs oc = observe(*b, false);
               _exit(50 + code);     // statuses are -15..5
            }
            else
            {
               int wst = 0;
               waitpid(pid, &wst, 0);

               if(WIFEXITED(wst)) st = WEXITSTATUS(wst) - 50;
               else if(WIFSIGNALED(wst)) st = -1000 - WTERMSIG(wst);
            }
            // both sides solve to the same result when solved after the copy from equal states?
            printf("COPY %s mode=%s point=%s mut=%s equal=%s members=%s solves_like_source=%s source_unchanged=%s copy_unchanged=%s after_destroy_status=%d\n",
                   t[1].c_str(), mode.c_str(), point.c_str(), mut.c_str(), eq.c_str(), mem.c_str(), twinDiff.c_str(), indepSrc.c_str(), indepCopy.c_str(), st);
         }
         catch(const std::exception& e)
         {
            printf("COPY %s exception\n", t[1].c_str());
         }

         fflush(stdout);
      }
   }

   return 0;
}
