// C13 harness: file readers under arbitrary input.
//   C13 run <listfile> <goodfile> <timeout_s>
//        every list line "<idx> <test> <path> [<aux>]" is executed in a forked child with alarm(timeout):
//        tests  lp-real | lp-rat | lp-ratauto   readFile (format detected by the reader) + post-read API sequence
//               bas0 | bas1                     load <aux>, readBasisFile(<path>) with (bas1) / without (bas0) names
//               set                             loadSettingsFile + parseSettingsString per line + post sequence
//   C13 mpsline <casefile>    field-level observation of MPSInput::readLine (tie of the Coq model)
//   C13 lpftok  <casefile>    token-level observation of LPFreadValue / LPFreadColName / LPFhasRowName / LPFhasKeyword
// Compiled from /repo/src on every tree state; second build with clang++ -fsanitize=address,undefined.
#include "soplex.h"
#include "common.hpp"
#include <csetjmp>
#include <csignal>
#include <execinfo.h>
#include <fcntl.h>
#include <fstream>
#include <map>
#include <set>
#include <sys/mman.h>
#include <sys/time.h>
#include <sys/wait.h>
#include <unistd.h>

#if defined(__has_feature)
#if __has_feature(address_sanitizer)
#define C13_ASAN 1
#include <sanitizer/common_interface_defs.h>
#endif
#endif

using namespace soplex;
using vf::dy;
typedef SoPlexBase<double> SP;

static std::ofstream devnull("/dev/null");
static void quiet(SP& s)
{
   for(int v = SPxOut::ERROR; v <= SPxOut::INFO3; v++)
      s.spxout.setStream((SPxOut::Verbosity)v, devnull);

   s.setIntParam(SP::VERBOSITY, 0);
}

// ------------------------------------------------------------------------------------------------------------------
// crash / hang reporting in the child
// ------------------------------------------------------------------------------------------------------------------
static void stackToStderr()
{
#ifdef C13_ASAN
   __sanitizer_print_stack_trace();
#else
   void* bt[48];
   int n = backtrace(bt, 48);
   backtrace_symbols_fd(bt, n, 2);
#endif
}

static void onSignal(int sig)
{
   char msg[64];
   int n = snprintf(msg, sizeof(msg), "\nC13-SIGNAL %d\n", sig);
   (void) !write(2, msg, n);
   stackToStderr();
   _exit(sig == SIGALRM ? 124 : 100 + sig);
}

static void installHandlers(bool all)
{
   static char altstack[1 << 16];
   stack_t ss;
   ss.ss_sp = altstack;
   ss.ss_size = sizeof(altstack);
   ss.ss_flags = 0;
   sigaltstack(&ss, nullptr);
   struct sigaction sa;
   memset(&sa, 0, sizeof(sa));
   sa.sa_handler = onSignal;
   sa.sa_flags = SA_ONSTACK;
   sigaction(SIGALRM, &sa, nullptr);

   if(all)
   {
      sigaction(SIGSEGV, &sa, nullptr);
      sigaction(SIGBUS, &sa, nullptr);
      sigaction(SIGFPE, &sa, nullptr);
      sigaction(SIGILL, &sa, nullptr);
      sigaction(SIGABRT, &sa, nullptr);
   }
}

// ------------------------------------------------------------------------------------------------------------------
// self-consistency of an LP: mirrored row/column files, index ranges, duplicates, NaN, bound order
// ------------------------------------------------------------------------------------------------------------------
template <class T> static bool isNaN(const T& x)
{
   return x != x;
}

template <class T>
static std::string checkLP(const SPxLPBase<T>& lp, const char* tag)
{
   std::ostringstream o;
   int m = lp.nRows(), n = lp.nCols();
   long nnzR = 0, nnzC = 0;
   int badidx = 0, dup = 0, zero = 0, nan = 0, lbub = 0, lhsrhs = 0, mirror = 0, infc = 0, infside = 0;
   const T big = T(1e100);
   const T mbig = T(-1e100);
   std::map<std::pair<int, int>, T> byRow;

   for(int i = 0; i < m; i++)
   {
      const SVectorBase<T>& r = lp.rowVector(i);
      std::set<int> seen;

      for(int k = 0; k < r.size(); k++)
      {
         int j = r.index(k);
         nnzR++;

         if(j < 0 || j >= n)
         {
            badidx++;
            continue;
         }

         if(!seen.insert(j).second)
            dup++;

         if(r.value(k) == 0)
            zero++;

         if(isNaN(r.value(k)))
            nan++;
         else if(r.value(k) >= big || r.value(k) <= mbig)
            infc++;

         byRow[std::make_pair(i, j)] = r.value(k);
      }

      if(isNaN(lp.lhs(i)) || isNaN(lp.rhs(i)))
         nan++;
      else if(lp.lhs(i) > lp.rhs(i))
         lhsrhs++;

      if(lp.lhs(i) >= big || lp.rhs(i) <= mbig)
         infside++;
   }

   long matched = 0;

   for(int j = 0; j < n; j++)
   {
      const SVectorBase<T>& c = lp.colVector(j);
      std::set<int> seen;

      for(int k = 0; k < c.size(); k++)
      {
         int i = c.index(k);
         nnzC++;

         if(i < 0 || i >= m)
         {
            badidx++;
            continue;
         }

         if(!seen.insert(i).second)
            dup++;

         auto it = byRow.find(std::make_pair(i, j));

         if(it == byRow.end())
            mirror++;
         else
         {
            matched++;

            if(!(it->second == c.value(k)) && !(isNaN(it->second) && isNaN(c.value(k))))
               mirror++;
         }
      }

      if(isNaN(lp.lower(j)) || isNaN(lp.upper(j)) || isNaN(lp.maxObj(j)))
         nan++;
      else if(lp.lower(j) > lp.upper(j))
         lbub++;

      if(lp.maxObj(j) >= big || lp.maxObj(j) <= mbig)
         infc++;

      if(lp.lower(j) >= big || lp.upper(j) <= mbig)
         infside++;
   }

   if(dup == 0 && (long) byRow.size() != matched)
      mirror += (int)((long) byRow.size() - matched);

   if(nnzR != nnzC)
      mirror++;

   o << "lp " << tag << " m=" << m << " n=" << n << " nnz=" << nnzR << " mirror_bad=" << mirror << " badidx=" << badidx
     << " dup=" << dup << " zero=" << zero << " nan=" << nan << " inf_coef=" << infc << " inf_wrong_side=" << infside << " lb_gt_ub=" << lbub << " lhs_gt_rhs=" << lhsrhs;

   if(infc > 0)
      o << "\ninconsistent infinite-coefficient " << tag << " " << infc;

   // a lower bound / left-hand side of +infinity or an upper bound / right-hand side of -infinity
   if(infside > 0)
      o << "\ninconsistent infinite-wrong-side " << tag << " " << infside;

   if(badidx > 0)
      o << "\ninconsistent index-range " << tag << " " << badidx;

   if(dup > 0)
      o << "\ninconsistent duplicate-entries " << tag << " " << dup;
   else if(mirror > 0)
      o << "\ninconsistent mirror " << tag << " " << mirror;

   if(nan > 0)
      o << "\ninconsistent nan-in-data " << tag << " " << nan;

   return o.str();
}

static const char* statusName(int s)
{
   switch(s)
   {
   case -15: return "ERROR";
   case -14: return "NO_RATIOTESTER";
   case -13: return "NO_PRICER";
   case -12: return "NO_SOLVER";
   case -11: return "NOT_INIT";
   case -10: return "ABORT_EXDECOMP";
   case -9: return "ABORT_DECOMP";
   case -8: return "ABORT_CYCLING";
   case -7: return "ABORT_TIME";
   case -6: return "ABORT_ITER";
   case -5: return "ABORT_VALUE";
   case -4: return "SINGULAR";
   case -3: return "NO_PROBLEM";
   case -2: return "REGULAR";
   case -1: return "RUNNING";
   case 0: return "UNKNOWN";
   case 1: return "OPTIMAL";
   case 2: return "UNBOUNDED";
   case 3: return "INFEASIBLE";
   case 4: return "INForUNBD";
   case 5: return "OPTIMAL_UNSCALED_VIOLATIONS";
   }

   return "?";
}

// all the cheap accessors; returns a checksum so that nothing is optimised away
static double touchAccessors(SP& s)
{
   double acc = 0;
   int m = s.numRows(), n = s.numCols();
   acc += s.numNonzeros();

   if(m > 0 && n > 0)
   {
      acc += (double) s.minAbsNonzeroReal() * 0;
      acc += (double) s.maxAbsNonzeroReal() * 0;
   }

   VectorBase<double> vr(m), vc(n);
   s.getRhsReal(vr);
   s.getLhsReal(vr);
   s.getUpperReal(vc);
   s.getLowerReal(vc);
   s.getObjReal(vc);
   DSVectorBase<double> sv;

   for(int i = 0; i < m; i++)
   {
      acc += (s.rhsReal(i) > 0) + (s.lhsReal(i) > 0) + (int) s.rowTypeReal(i);
      s.getRowVectorReal(i, sv);
      acc += sv.size();
   }

   for(int j = 0; j < n; j++)
   {
      acc += (s.upperReal(j) > 0) + (s.lowerReal(j) > 0) + (s.objReal(j) > 0) + (s.maxObjReal(j) > 0);
      s.getColVectorReal(j, sv);
      acc += sv.size();
   }

   if(m > 0 && n > 0)
      acc += (s.coefReal(m - 1, n - 1) > 0);

   return acc;
}

static void solveAndReport(SP& s, const char* tag, int iterlimit)
{
   s.setIntParam(SP::ITERLIMIT, iterlimit);

   if(s.realParam(SP::TIMELIMIT) > 4.0)
      s.setRealParam(SP::TIMELIMIT, 4.0);

   int st = (int) s.optimize();
   int m = s.numRows(), n = s.numCols();
   VectorBase<double> x(n), y(m), sl(m), d(n);
   bool hp = s.getPrimal(x), hd = s.getDual(y), hs = s.getSlacksReal(sl), hr = s.getRedCost(d);
   bool hray = s.getPrimalRay(x), hfar = s.getDualFarkas(y);
   std::vector<SPxSolverBase<double>::VarStatus> br(m + 1), bc(n + 1);
   int nbasic = -1;

   if(s.hasBasis())
   {
      s.getBasis(br.data(), bc.data());
      nbasic = 0;

      for(int i = 0; i < m; i++)
         nbasic += br[i] == SPxSolverBase<double>::BASIC;

      for(int j = 0; j < n; j++)
         nbasic += bc[j] == SPxSolverBase<double>::BASIC;
   }

   printf("solve %s status=%s iters=%d hasPrimal=%d hasDual=%d slacks=%d redcost=%d ray=%d farkas=%d basis=%d nbasic=%d\n", tag,
          statusName(st), s.numIterations(), hp, hd, hs, hr, hray, hfar, (int) s.hasBasis(), nbasic);

   if(s.hasBasis() && nbasic != m)
      printf("inconsistent basis-count nbasic=%d m=%d\n", nbasic, m);
}

static const char* g_good = nullptr;
static double g_goodObj = 0;
static int g_goodStatus = 0;

// after everything: the object must still be usable: clear, load a known good file, solve to optimality
static void clearReloadSolve(SP& s, bool expectOptimal)
{
   s.clearLPReal();
   printf("clear m=%d n=%d\n", s.numRows(), s.numCols());

   if(s.numRows() != 0 || s.numCols() != 0)
      printf("inconsistent clear-left-data\n");

   s.setIntParam(SP::READMODE, SP::READMODE_REAL);
   NameSet rn, cn;
   bool ok = s.readFile(g_good, &rn, &cn);
   printf("reread ok=%d m=%d n=%d rn=%d cn=%d\n", ok, s.numRows(), s.numCols(), rn.num(), cn.num());

   if(!ok)
   {
      printf("unusable reread-failed\n");
      return;
   }

   s.setIntParam(SP::ITERLIMIT, -1);

   if(s.realParam(SP::TIMELIMIT) > 4.0)
      s.setRealParam(SP::TIMELIMIT, 4.0);

   int st = (int) s.optimize();
   double obj = (st == 1) ? (double) s.objValueReal() : 0.0;
   printf("resolve status=%s obj=%.12g\n", statusName(st), obj);

   if(expectOptimal)
   {
      if(st != g_goodStatus)
         printf("unusable resolve-status %s expected %s\n", statusName(st), statusName(g_goodStatus));
      else if(st == 1 && !(fabs(obj - g_goodObj) <= 1e-6 * (1 + fabs(g_goodObj))))
         printf("unusable resolve-objective %.12g expected %.12g\n", obj, g_goodObj);
   }
}

static void testModel(const std::string& test, const char* path)
{
   // gate: the bare real reader, without solver object, sync or presolver.  An LP that comes out of it with duplicate
   // entries, NaN or unmirrored storage is the finding; feeding it to the solver would only produce consequences.
   {
      SPxOut po;
      po.setVerbosity(SPxOut::ERROR);

      for(int v = SPxOut::ERROR; v <= SPxOut::INFO3; v++)
         po.setStream((SPxOut::Verbosity)v, devnull);

      SPxLPBase<double> pre;
      pre.setOutstream(po);
      pre.setTolerances(std::make_shared<Tolerances>());
      NameSet prn, pcn;
      bool pok = pre.readFile(path, &prn, &pcn);
      printf("preread ok=%d m=%d n=%d\n", pok, pre.nRows(), pre.nCols());

      if(pok)
      {
         std::string r = checkLP(pre, "preread");
         printf("%s\n", r.c_str());

         if(r.find("\ninconsistent") != std::string::npos)
         {
            printf("skipped the LP is not self-consistent\ndone\n");
            fflush(stdout);
            return;
         }
      }
   }

   bool rat = test != "lp-real";

   if(rat)
   {
      // the same gate for the bare rational reader; zero denominators first (arithmetic on them traps inside GMP)
      SPxOut po;
      po.setVerbosity(SPxOut::ERROR);

      for(int v = SPxOut::ERROR; v <= SPxOut::INFO3; v++)
         po.setStream((SPxOut::Verbosity)v, devnull);

      SPxLPBase<Rational> preq;
      preq.setOutstream(po);
      preq.setTolerances(std::make_shared<Tolerances>());
      NameSet qrn, qcn;
      bool qok = preq.readFile(path, &qrn, &qcn);
      printf("preread-rational ok=%d m=%d n=%d\n", qok, preq.nRows(), preq.nCols());

      if(qok)
      {
         int zd = 0;
         auto isZD = [](const Rational & q)
         {
            return denominator(q) == 0;
         };

         for(int i = 0; i < preq.nRows(); i++)
         {
            const SVectorBase<Rational>& rv = preq.rowVector(i);

            for(int k = 0; k < rv.size(); k++)
               zd += isZD(rv.value(k));

            zd += isZD(preq.lhs(i)) + isZD(preq.rhs(i));
         }

         for(int j = 0; j < preq.nCols(); j++)
         {
            const SVectorBase<Rational>& cv = preq.colVector(j);

            for(int k = 0; k < cv.size(); k++)
               zd += isZD(cv.value(k));

            zd += isZD(preq.lower(j)) + isZD(preq.upper(j)) + isZD(preq.maxObj(j));
         }

         if(zd > 0)
         {
            printf("inconsistent zero-denominator preread-rational %d\nskipped the LP is not self-consistent\ndone\n", zd);
            fflush(stdout);
            return;
         }

         std::string r = checkLP(preq, "preread-rational");
         printf("%s\n", r.c_str());

         if(r.find("\ninconsistent") != std::string::npos)
         {
            printf("skipped the LP is not self-consistent\ndone\n");
            fflush(stdout);
            return;
         }
      }
   }

   SP s;
   quiet(s);

   if(rat)
   {
      s.setIntParam(SP::READMODE, SP::READMODE_RATIONAL);

      if(test == "lp-ratauto")
         s.setIntParam(SP::SYNCMODE, SP::SYNCMODE_AUTO);
   }

   NameSet rn, cn;
   DIdxSet iv;
   bool ok = s.readFile(path, &rn, &cn, &iv);
   int m = s.numRows(), n = s.numCols();
   printf("read ok=%d m=%d n=%d nnz=%d rn=%d cn=%d iv=%d\n", ok, m, n, s.numNonzeros(), rn.num(), cn.num(), iv.size());

   if(ok)
   {
      if(rn.num() != m || cn.num() != n)
         printf("inconsistent names rn=%d m=%d cn=%d n=%d\n", rn.num(), m, cn.num(), n);

      for(int k = 0; k < iv.size(); k++)
         if(iv.index(k) < 0 || iv.index(k) >= n)
         {
            printf("inconsistent intvar-index %d n=%d\n", iv.index(k), n);
            break;
         }

      std::string r = checkLP(*s._realLP, "real");
      printf("%s\n", r.c_str());

      if(test == "lp-ratauto" && s._rationalLP != nullptr)
      {
         std::string q = checkLP(*s._rationalLP, "rational");
         printf("%s\n", q.c_str());

         if(s.numRowsRational() != m || s.numColsRational() != n)
            printf("inconsistent rational-dims %d %d vs %d %d\n", s.numRowsRational(), s.numColsRational(), m, n);

         if(s._rowTypes.size() != m || s._colTypes.size() != n)
            printf("inconsistent rangetypes %d %d vs %d %d\n", s._rowTypes.size(), s._colTypes.size(), m, n);
      }

      // every name resolves to its own index
      for(int i = 0; i < rn.num() && i < m; i++)
         if(rn.number(rn[i]) != i)
         {
            printf("inconsistent rowname-lookup %d\n", i);
            break;
         }

      for(int j = 0; j < cn.num() && j < n; j++)
         if(cn.number(cn[j]) != j)
         {
            printf("inconsistent colname-lookup %d\n", j);
            break;
         }
   }
   else if(m != 0 || n != 0)
      printf("inconsistent failed-read-left-data m=%d n=%d\n", m, n);

   double acc = touchAccessors(s);
   printf("accessors %d\n", acc == acc);
   solveAndReport(s, "first", 50);
   clearReloadSolve(s, true);
}

static void testBasis(const std::string& test, const char* path, const char* base)
{
   SP s;
   quiet(s);
   NameSet rn, cn;
   bool ok = s.readFile(base, &rn, &cn);
   printf("base ok=%d m=%d n=%d\n", ok, s.numRows(), s.numCols());

   if(!ok)
      return;

   // bas0/bas1 [r|c][s]: r/c = fixed row/column representation, s = the base LP is solved before the basis file is read
   bool withNames = test.compare(0, 4, "bas1") == 0;
   std::string opt = test.substr(4);

   if(opt.find('r') != std::string::npos)
      s.setIntParam(SP::REPRESENTATION, SP::REPRESENTATION_ROW);
   else if(opt.find('c') != std::string::npos)
      s.setIntParam(SP::REPRESENTATION, SP::REPRESENTATION_COLUMN);

   if(opt.find('s') != std::string::npos)
   {
      int st0 = (int) s.optimize();
      printf("presolve-run status=%s\n", statusName(st0));
   }

   bool b = withNames ? s.readBasisFile(path, &rn, &cn) : s.readBasisFile(path, nullptr, nullptr);
   int m = s.numRows(), n = s.numCols();
   printf("readbasis ok=%d hasBasis=%d m=%d n=%d\n", b, (int) s.hasBasis(), m, n);

   if(b != s.hasBasis())
      printf("inconsistent basis-flag ret=%d hasBasis=%d\n", b, (int) s.hasBasis());

   if(s.hasBasis())
   {
      std::vector<SPxSolverBase<double>::VarStatus> br(m + 1), bc(n + 1);
      s.getBasis(br.data(), bc.data());
      int nbasic = 0, undef = 0;

      for(int i = 0; i < m; i++)
      {
         nbasic += br[i] == SPxSolverBase<double>::BASIC;
         undef += br[i] == SPxSolverBase<double>::UNDEFINED;
         (void) s.basisRowStatus(i);
      }

      for(int j = 0; j < n; j++)
      {
         nbasic += bc[j] == SPxSolverBase<double>::BASIC;
         undef += bc[j] == SPxSolverBase<double>::UNDEFINED;
         (void) s.basisColStatus(j);
      }

      printf("basis nbasic=%d undef=%d\n", nbasic, undef);

      if(nbasic != m || undef != 0)
         printf("inconsistent basis-count nbasic=%d m=%d undef=%d\n", nbasic, m, undef);
   }

   std::string r = checkLP(*s._realLP, "real");
   printf("%s\n", r.c_str());
   solveAndReport(s, "first", 50);
   clearReloadSolve(s, true);
}


// ------------------------------------------------------------------------------------------------------------------
// settings reader: exact-size line buffers whose terminator is the last byte in front of an inaccessible page, so that
// a single step of the parser behind the terminator faults in every build (not only under AddressSanitizer)
// ------------------------------------------------------------------------------------------------------------------
struct GuardedLine
{
   char* base;
   size_t maplen;
   char* p;
   GuardedLine(const char* str, size_t n)
   {
      size_t pg = (size_t) sysconf(_SC_PAGESIZE);
      size_t need = n + 1;
      size_t pages = (need + pg - 1) / pg;
      maplen = (pages + 1) * pg;
      base = (char*) mmap(nullptr, maplen, PROT_READ | PROT_WRITE, MAP_PRIVATE | MAP_ANONYMOUS, -1, 0);
      mprotect(base + pages * pg, pg, PROT_NONE);
      p = base + pages * pg - need;
      memcpy(p, str, n);
      p[n] = 0;
   }
   ~GuardedLine()
   {
      munmap(base, maplen);
   }
};

// every parameter value, exactly
static std::vector<std::string> paramDump(SP& s)
{
   std::vector<std::string> v;
   char buf[96];

   for(int i = 0; i < SP::BOOLPARAM_COUNT; i++)
      v.push_back("bool:" + s._currentSettings->boolParam.name[i] + "=" + (s.boolParam((SP::BoolParam)i) ? "1" : "0"));

   for(int i = 0; i < SP::INTPARAM_COUNT; i++)
   {
      snprintf(buf, sizeof(buf), "=%d", s.intParam((SP::IntParam)i));
      v.push_back("int:" + s._currentSettings->intParam.name[i] + buf);
   }

   for(int i = 0; i < SP::REALPARAM_COUNT; i++)
      v.push_back("real:" + s._currentSettings->realParam.name[i] + "=" + dy((double) s.realParam((SP::RealParam)i)));

   snprintf(buf, sizeof(buf), "uint:random_seed=%u", s.randomSeed());
   v.push_back(buf);
   return v;
}

static std::string firstDiff(const std::vector<std::string>& a, const std::vector<std::string>& b)
{
   for(size_t i = 0; i < a.size() && i < b.size(); i++)
      if(a[i] != b[i])
         return a[i] + " vs " + b[i];

   return "";
}

static void testSettings(const char* path)
{
   SP s;
   quiet(s);
   bool ok = s.loadSettingsFile(path);
   printf("load ok=%d\n", ok);
   int bad = 0;

   auto validate = [&](const char* when)
   {
      for(int i = 0; i < SP::INTPARAM_COUNT; i++)
      {
         int v = s.intParam((SP::IntParam)i);

         if(v < s._currentSettings->intParam.lower[i] || v > s._currentSettings->intParam.upper[i])
         {
            printf("inconsistent param-int-range %s %s=%d\n", when, s._currentSettings->intParam.name[i].c_str(), v);
            bad++;
         }
      }

      for(int i = 0; i < SP::REALPARAM_COUNT; i++)
      {
         double v = s.realParam((SP::RealParam)i);

         if(!(v >= s._currentSettings->realParam.lower[i] && v <= s._currentSettings->realParam.upper[i]))
         {
            printf("inconsistent param-real-range %s %s=%g\n", when, s._currentSettings->realParam.name[i].c_str(), v);
            bad++;
         }
      }
   };
   validate("load");
   std::ifstream f(path, std::ios::binary);
   std::string content((std::istreambuf_iterator<char>(f)), std::istreambuf_iterator<char>());
   {
      // The file again, line by line as loadSettingsFile cuts it (same getline call), on two fresh objects:
      //   g: _parseSettingsLine on an exact-size buffer in front of a guard page (nothing behind the terminator),
      //   t: the twin parser parseSettingsString on the same kind of buffer.
      // A line means the same whatever an earlier, longer line left in the 500-byte buffer of loadSettingsFile, so the
      // three objects end with the same parameter values; a line that changes nothing here changes nothing there.
      std::vector<std::string> loaded = paramDump(s);
      // pass 1: cut the lines, run the twin parser
      std::vector<std::string> texts;
      std::vector<int> tres, tchg;
      bool readError = false, twin = true;
      {
         SP t;
         quiet(t);
         std::istringstream is(content);
         char lb[SPX_SET_MAX_LINE_LEN];

         while(true)
         {
            readError = !is.getline(lb, sizeof(lb));

            if(readError)
               break;

            size_t n = strlen(lb);
            texts.push_back(std::string(lb, n));
            int tr = 0, tch = 0;

            if(n <= SPX_SET_MAX_LINE_LEN - 2)
            {
               std::vector<std::string> tb = paramDump(t);
               GuardedLine tl(lb, n);
               tr = t.parseSettingsString(tl.p);
               tch = paramDump(t) != tb;
            }
            else
               twin = false;       // parseSettingsString keeps 498 characters only

            tres.push_back(tr);
            tchg.push_back(tch);
         }

         readError = readError && !is.eof();

         if(ok != !readError)
            printf("inconsistent settings-load-return ret=%d expected=%d\n", ok, !readError);

         if(twin)
         {
            std::string d = firstDiff(loaded, paramDump(t));

            if(!d.empty())
               printf("inconsistent settings-load-differs-from-parseSettingsString %s\n", d.c_str());
         }

         fflush(stdout);
      }
      // pass 2: _parseSettingsLine itself with nothing behind the terminator
      SP g;
      quiet(g);

      for(size_t k = 0; k < texts.size(); k++)
      {
         size_t n = texts[k].size();
         std::vector<std::string> gb = paramDump(g);
         bool gr;
         {
            GuardedLine gl(texts[k].c_str(), n);
            gr = g._parseSettingsLine(gl.p, (int) k + 1);
         }
         bool gch = paramDump(g) != gb;

         if(n <= SPX_SET_MAX_LINE_LEN - 2 && (tres[k] != (int) gr || tchg[k] != (int) gch))
            printf("inconsistent settings-twin-parsers-differ line %d file=%d,%d string=%d,%d\n", (int) k + 1, gr, gch, tres[k], tchg[k]);

         if(k < 64 && n <= 600)
            printf("sline %d %s line=%d,%d string=%d,%d\n", (int) k + 1, n ? vf::hex(texts[k]).c_str() : "e", gr, gch, tres[k], tchg[k]);

         fflush(stdout);
      }

      std::string d = firstDiff(loaded, paramDump(g));

      if(!d.empty())
         printf("inconsistent settings-load-differs-from-per-line %s\n", d.c_str());

      printf("perline lines=%d twin=%d\n", (int) texts.size(), twin);
      fflush(stdout);
   }
   // every line again through parseSettingsString, from an exactly sized heap copy
   size_t a = 0;
   int nl = 0, nok = 0;

   while(a <= content.size() && nl < 2000)
   {
      size_t b = content.find('\n', a);

      if(b == std::string::npos)
         b = content.size();

      std::string line = content.substr(a, b - a);
      size_t z = line.find('\0');

      if(z != std::string::npos)
         line.resize(z);

      char* buf = (char*) malloc(line.size() + 1);
      memcpy(buf, line.c_str(), line.size() + 1);
      bool r = s.parseSettingsString(buf);
      free(buf);
      nl++;
      nok += r;
      a = b + 1;
   }

   printf("parse lines=%d ok=%d\n", nl, nok);
   validate("parse");
   (void) s.setIntParam(SP::VERBOSITY, 0);
   // the object must still work: load a good file and solve (whatever the settings say, no crash / hang)
   NameSet rn, cn;
   s.setIntParam(SP::READMODE, SP::READMODE_REAL);
   bool rk = s.readFile(g_good, &rn, &cn);
   printf("reread ok=%d m=%d n=%d\n", rk, s.numRows(), s.numCols());

   if(!rk)
      printf("unusable reread-failed\n");
   else
   {
      if(s.realParam(SP::TIMELIMIT) > 4.0)
         s.setRealParam(SP::TIMELIMIT, 4.0);

      int st = (int) s.optimize();
      printf("solve settings status=%s\n", statusName(st));
      s.clearLPReal();
      printf("clear m=%d n=%d\n", s.numRows(), s.numCols());
   }
}

static int childMain(const std::string& test, const std::string& path, const std::string& aux)
{
   try
   {
      if(test == "lp-real" || test == "lp-rat" || test == "lp-ratauto")
         testModel(test, path.c_str());
      else if(test.compare(0, 4, "bas0") == 0 || test.compare(0, 4, "bas1") == 0)
         testBasis(test, path.c_str(), aux.c_str());
      else if(test == "set")
         testSettings(path.c_str());
      else
         printf("unknown test\n");
   }
   catch(const SPxException& e)
   {
      printf("exception SPxException %s\n", e.what().c_str());
      fflush(stdout);
      return 3;
   }
   catch(const std::bad_alloc& e)
   {
      printf("exception bad_alloc %s\n", e.what());
      fflush(stdout);
      return 3;
   }
   catch(const std::exception& e)
   {
      printf("exception std %s\n", e.what());
      fflush(stdout);
      return 3;
   }
   catch(...)
   {
      printf("exception unknown\n");
      fflush(stdout);
      return 3;
   }

   printf("done\n");
   fflush(stdout);
   return 0;
}

static int runList(const char* listfile, const char* good, int timeout)
{
   g_good = good;
   {
      // reference result of the good file, computed in a child so that the parent stays small
      int fd[2];

      if(pipe(fd) != 0)
         return 2;

      pid_t p = fork();

      if(p == 0)
      {
         close(fd[0]);
         SP s;
         quiet(s);
         bool ok = s.readFile(good);
         int st = ok ? (int) s.optimize() : -99;
         double obj = st == 1 ? (double) s.objValueReal() : 0.0;
         char buf[128];
         int n = snprintf(buf, sizeof(buf), "%d %.17g\n", st, obj);
         (void) !write(fd[1], buf, n);
         _exit(0);
      }

      close(fd[1]);
      char buf[128];
      int n = (int) read(fd[0], buf, sizeof(buf) - 1);
      buf[n > 0 ? n : 0] = 0;
      close(fd[0]);
      int stt;
      waitpid(p, &stt, 0);
      sscanf(buf, "%d %lg", &g_goodStatus, &g_goodObj);
      printf("GOOD %s status=%s obj=%.12g\n", good, statusName(g_goodStatus), g_goodObj);
   }
   std::ifstream lf(listfile);
   std::string line;
   char errname[256];
   snprintf(errname, sizeof(errname), "%s.%d.err", listfile, (int) getpid());

   while(std::getline(lf, line))
   {
      std::vector<std::string> t = vf::split(line);

      if(t.size() < 3)
         continue;

      printf("BEGIN %s %s %s\n", t[0].c_str(), t[1].c_str(), t[2].c_str());
      fflush(stdout);
      pid_t p = fork();

      if(p == 0)
      {
         int fd = open(errname, O_WRONLY | O_CREAT | O_TRUNC, 0600);

         if(fd >= 0)
         {
            dup2(fd, 2);
            close(fd);
         }

#ifdef C13_ASAN
         installHandlers(false);
#else
         installHandlers(true);
#endif
         alarm(timeout);
         int rc = childMain(t[1], t[2], t.size() > 3 ? t[3] : "");
         exit(rc);
      }

      int st = 0;
      waitpid(p, &st, 0);
      std::string err;
      {
         std::ifstream ef(errname, std::ios::binary);
         err.assign((std::istreambuf_iterator<char>(ef)), std::istreambuf_iterator<char>());
      }
      bool abnormal = !(WIFEXITED(st) && (WEXITSTATUS(st) == 0));

      if(WIFEXITED(st))
         printf("END %s exit=%d", t[0].c_str(), WEXITSTATUS(st));
      else
         printf("END %s signal=%d", t[0].c_str(), WTERMSIG(st));

      if(abnormal)
      {
         // the report is at the end of stderr; the reader's own messages may precede it
         size_t from = 0;
         size_t k = err.find("==ERROR");

         if(k == std::string::npos)
            k = err.find("runtime error:");

         if(k == std::string::npos)
            k = err.find("C13-SIGNAL");

         if(k != std::string::npos)
            from = k > 200 ? k - 200 : 0;
         else if(err.size() > 6000)
            from = err.size() - 6000;

         std::string cut = err.substr(from, 12000);
         printf(" stderr=%s", vf::hex(cut).c_str());
      }

      printf("\n");
      fflush(stdout);
   }

   unlink(errname);
   return 0;
}

// ------------------------------------------------------------------------------------------------------------------
// tie: MPSInput::readLine, field level
// ------------------------------------------------------------------------------------------------------------------
static sigjmp_buf g_jmp;
static void onVtAlarm(int)
{
   siglongjmp(g_jmp, 1);
}

static std::string fld(const char* f)
{
   if(f == nullptr)
      return "-";

   std::string h = vf::hex(f);
   return h.empty() ? "e" : h;
}

static int runMpsLine(const char* casefile)
{
   std::ifstream cf(casefile);
   std::string line;
   struct sigaction sa;
   memset(&sa, 0, sizeof(sa));
   sa.sa_handler = onVtAlarm;
   sigaction(SIGVTALRM, &sa, nullptr);

   while(std::getline(cf, line))
   {
      // CASE id section newformat ncalls hexcontent
      std::vector<std::string> t = vf::split(line);

      if(t.size() < 5 || t[0] != "CASE")
         continue;

      int sec = atoi(t[2].c_str()), nf = atoi(t[3].c_str()), ncalls = atoi(t[4].c_str());
      std::string content = t.size() > 5 ? vf::unhex(t[5]) : std::string();
      printf("CASE %s\n", t[1].c_str());
      std::istringstream is(content);
      MPSInput* mps = new MPSInput(is);
      mps->m_section = (MPSInput::Section) sec;
      mps->m_is_new_format = nf != 0;
      volatile int k = 0;
      volatile bool hung = false;

      for(k = 0; k < ncalls; k++)
      {
         volatile bool ret = false;

         if(sigsetjmp(g_jmp, 1) == 0)
         {
            struct itimerval it;
            memset(&it, 0, sizeof(it));
            it.it_value.tv_usec = 150000;
            setitimer(ITIMER_VIRTUAL, &it, nullptr);
            ret = mps->readLine();
            memset(&it, 0, sizeof(it));
            setitimer(ITIMER_VIRTUAL, &it, nullptr);
         }
         else
            hung = true;

         if(hung)
         {
            printf("hang\n");
            break;
         }

         if(!ret)
         {
            printf("ret=0\n");
            break;
         }

         printf("ret=1 f0=%s f1=%s f2=%s f3=%s f4=%s f5=%s nf=%d int=%d\n", fld(mps->m_f0).c_str(), fld(mps->m_f1).c_str(),
                fld(mps->m_f2).c_str(), fld(mps->m_f3).c_str(), fld(mps->m_f4).c_str(), fld(mps->m_f5).c_str(),
                (int) mps->m_is_new_format, (int) mps->m_is_integer);
      }

      fflush(stdout);

      if(!hung)
         delete mps;
   }

   return 0;
}

// ------------------------------------------------------------------------------------------------------------------
// tie: LP format token functions
// ------------------------------------------------------------------------------------------------------------------
static int runLpfTok(const char* casefile)
{
   std::ifstream cf(casefile);
   std::string line;
   SPxOut out;
   out.setVerbosity(SPxOut::ERROR);

   for(int v = SPxOut::ERROR; v <= SPxOut::INFO3; v++)
      out.setStream((SPxOut::Verbosity)v, devnull);

   while(std::getline(cf, line))
   {
      // kind hextext [hexkeyword]
      std::vector<std::string> t = vf::split(line);

      if(t.size() < 2)
         continue;

      std::string text = t[1] == "e" ? std::string() : vf::unhex(t[1]);
      char* buf = (char*) malloc(text.size() + 1);
      memcpy(buf, text.c_str(), text.size());
      buf[text.size()] = 0;
      char* pos = buf;

      if(t[0] == "V")
      {
         double v = LPFreadValue<double>(pos, &out);
         printf("V val=%s consumed=%d\n", dy(v).c_str(), (int)(pos - buf));
      }
      else if(t[0] == "Q")
      {
         Rational v = LPFreadValue(pos, &out, 1);
         std::ostringstream o;
         o << v;
         printf("Q val=%s consumed=%d\n", o.str().c_str(), (int)(pos - buf));
      }
      else if(t[0] == "N" || t[0] == "M")
      {
         // N: with an empty column to add (objective / constraints), M: lookup only (bounds / integer sections)
         NameSet cn;
         cn.add("known");
         LPColSetBase<double> cset;
         LPColBase<double> empty;
         cset.add(empty);
         int idx = LPFreadColName<double>(pos, &cn, cset, t[0] == "N" ? &empty : nullptr, &out);
         std::string nm = (idx >= 0 && idx < cn.num()) ? vf::hex(cn[idx]) : "-";
         printf("%s idx=%d consumed=%d names=%d cols=%d name=%s\n", t[0].c_str(), idx, (int)(pos - buf), cn.num(), cset.num(),
                nm.empty() ? "e" : nm.c_str());
      }
      else if(t[0] == "R")
      {
         NameSet rn;
         bool r = LPFhasRowName(pos, &rn);
         std::string nm = rn.num() > 0 ? vf::hex(rn[0]) : "-";
         printf("R ret=%d consumed=%d names=%d name=%s\n", (int) r, (int)(pos - buf), rn.num(), nm.empty() ? "e" : nm.c_str());
      }
      else if(t[0] == "K" && t.size() > 2)
      {
         std::string kw = vf::unhex(t[2]);
         char* kbuf = (char*) malloc(kw.size() + 1);
         memcpy(kbuf, kw.c_str(), kw.size() + 1);
         bool r = LPFhasKeyword(pos, kbuf);
         printf("K ret=%d consumed=%d\n", (int) r, (int)(pos - buf));
         free(kbuf);
      }
      else
         printf("?\n");

      fflush(stdout);
      free(buf);
   }

   return 0;
}

int main(int argc, char** argv)
{
   if(argc >= 5 && !strcmp(argv[1], "run"))
      return runList(argv[2], argv[3], atoi(argv[4]));

   if(argc >= 3 && !strcmp(argv[1], "mpsline"))
      return runMpsLine(argv[2]);

   if(argc >= 3 && !strcmp(argv[1], "lpftok"))
      return runLpfTok(argv[2]);

   fprintf(stderr, "usage: C13 run <list> <goodfile> <timeout> | mpsline <cases> | lpftok <cases>\n");
   return 2;
}
