// C05 harness: basis-inverse and basis-multiply queries of SoPlexBase<double>.
//   case file:  LP / C / R lines (checks/lpgen.py format), then  VEC d0,d1,...  (dense test vectors, exact dyadics),
//               then  RUN <id> mode=solve|set|solveset [brows=BLUFZ.. bcols=..] key=value ...
//   per RUN (executed in a forked child so that a crash is reported and does not hide the other runs):
//     RUN id status=.. rep=C|R hasBasis=.. loaded0=.. scaled=.. m=.. n=..
//     BIND id b,...            getBasisInd before the first query      BIND2 id ...  after all queries
//     BASEID id R3,C0,...      the solver's own basis order (private)
//     EXP id rexp=.. cexp=..   scale exponents of the LP in the solver (private members scaleExp)
//     SCALEDA id i,j,dy;...    the matrix stored in the solver (private)      LPDUMP id ...  the user's view (accessors)
//     ROW|COL id k u=<unscale> sp=<1 sparse call,0 dense call> ret=.. ninds=.. inds=.. coef=..
//     SOLVE id t u= ret= rhs= rhsout= sol=      SOLVEB: rhs = Bref * vec_t computed here from the printed data
//     MULT|MULTT id t u= ret= in= out=
//     CRASHIN id <query in progress> sig=..  and  CRASH id sig= code=   when the implementation kills the child
#include "soplex.h"
#include "common.hpp"
#include <sstream>
#include <fstream>
#include <map>
#include <csignal>
#include <sys/wait.h>
#include <unistd.h>

using namespace soplex;
using vf::dy;
typedef SoPlexBase<double> SP;
typedef SPxSolverBase<double> SOL;

static std::ofstream devnull("/dev/null");
static void quiet(SP& s)
{
   for(int v = SPxOut::ERROR; v <= SPxOut::INFO3; v++)
      s.spxout.setStream((SPxOut::Verbosity)v, devnull);
}

struct CaseLP
{
   bool maxi;
   std::string offset;
   std::vector<std::string> obj, lo, up, lhs, rhs;
   std::vector<std::vector<std::pair<int, std::string>>> rows;
   std::vector<std::vector<double>> vecs;
};

static double num(const std::string& t)
{
   if(t == "inf") return infinity;

   if(t == "-inf") return -infinity;

   size_t c = t.find('/');

   if(c == std::string::npos) return atof(t.c_str());

   return atof(t.substr(0, c).c_str()) / atof(t.substr(c + 1).c_str());
}

static void load(SP& s, const CaseLP& L)
{
   s.setIntParam(SP::OBJSENSE, L.maxi ? SP::OBJSENSE_MAXIMIZE : SP::OBJSENSE_MINIMIZE);
   DSVector empty(0);

   for(size_t j = 0; j < L.obj.size(); j++)
      s.addColReal(LPCol(num(L.obj[j]), empty, num(L.up[j]), num(L.lo[j])));

   for(size_t i = 0; i < L.rows.size(); i++)
   {
      DSVector r((int)L.rows[i].size());

      for(auto& e : L.rows[i])
         r.add(e.first, num(e.second));

      s.addRowReal(LPRow(num(L.lhs[i]), r, num(L.rhs[i])));
   }

   s.setRealParam(SP::OBJ_OFFSET, num(L.offset));
}

static bool setParam(SP& s, const std::string& kv)
{
   size_t e = kv.find('=');
   std::string k = kv.substr(0, e), v = kv.substr(e + 1);
   auto& st = *s._currentSettings;

   for(int i = 0; i < SP::BOOLPARAM_COUNT; i++)
      if(st.boolParam.name[i] == k)
         return s.setBoolParam((SP::BoolParam)i, v == "1" || v == "true");

   for(int i = 0; i < SP::INTPARAM_COUNT; i++)
      if(st.intParam.name[i] == k)
         return s.setIntParam((SP::IntParam)i, atoi(v.c_str()));

   for(int i = 0; i < SP::REALPARAM_COUNT; i++)
      if(st.realParam.name[i] == k)
         return s.setRealParam((SP::RealParam)i, v.find(':') != std::string::npos ? vf::undy(v) : atof(v.c_str()));

   if(k == "seed")
   {
      s.setRandomSeed((unsigned)strtoul(v.c_str(), nullptr, 10));
      return true;
   }

   return false;
}

static const char* statusName(SOL::Status st)
{
   switch(st)
   {
   case SOL::ERROR: return "ERROR";
   case SOL::ABORT_CYCLING: return "ABORT_CYCLING";
   case SOL::ABORT_TIME: return "ABORT_TIME";
   case SOL::ABORT_ITER: return "ABORT_ITER";
   case SOL::ABORT_VALUE: return "ABORT_VALUE";
   case SOL::SINGULAR: return "SINGULAR";
   case SOL::NO_PROBLEM: return "NO_PROBLEM";
   case SOL::REGULAR: return "REGULAR";
   case SOL::RUNNING: return "RUNNING";
   case SOL::UNKNOWN: return "UNKNOWN";
   case SOL::OPTIMAL: return "OPTIMAL";
   case SOL::UNBOUNDED: return "UNBOUNDED";
   case SOL::INFEASIBLE: return "INFEASIBLE";
   case SOL::INForUNBD: return "INForUNBD";
   case SOL::OPTIMAL_UNSCALED_VIOLATIONS: return "OPTIMAL_UNSCALED_VIOLATIONS";
   default: return "OTHER";
   }
}

static SOL::VarStatus varStatus(char c)
{
   switch(c)
   {
   case 'U': return SOL::ON_UPPER;
   case 'L': return SOL::ON_LOWER;
   case 'F': return SOL::FIXED;
   case 'Z': return SOL::ZERO;
   case 'B': return SOL::BASIC;
   default: return SOL::UNDEFINED;
   }
}

static std::string vecS(const std::vector<double>& v)
{
   std::string o;

   for(size_t i = 0; i < v.size(); i++)
      o += dy(v[i]) + ",";

   return o.empty() ? "," : o;
}

static std::string intsS(const std::vector<int>& v, int cnt)
{
   std::string o;

   for(int i = 0; i < cnt && i < (int)v.size(); i++)
      o += std::to_string(v[i]) + ",";

   return o.empty() ? "," : o;
}

static const double SENT = 777.0;

// the query in progress, reported by the signal handler of the forked child when the implementation crashes
static char g_cur[160] = "setup";
static void onCrash(int sig)
{
   char buf[256];
   int len = snprintf(buf, sizeof(buf), "\nCRASHIN %s sig=%d\n", g_cur, sig);

   if(len > 0)
   {
      ssize_t w = write(1, buf, (size_t)len);
      (void)w;
   }

   _exit(70);
}
#define CUR(...) snprintf(g_cur, sizeof(g_cur), __VA_ARGS__)

static void runQueries(SP& s, const CaseLP& L, const std::string& id)
{
   int m = s.numRows(), n = s.numCols();
   bool loaded0 = s._isRealLPLoaded;
   printf("RUN %s status=%s rep=%s hasBasis=%d loaded0=%d scaled=%d m=%d n=%d iters=%d\n", id.c_str(), statusName(s.status()),
          s._solver.rep() == SOL::COLUMN ? "C" : "R", s.hasBasis() ? 1 : 0, loaded0 ? 1 : 0, s._realLP->isScaled() ? 1 : 0, m, n,
          s.numIterations());

   if(!s.hasBasis() || m == 0)
   {
      fflush(stdout);
      return;
   }

   // what getBasis reports (user view of the same basis)
   {
      std::vector<SOL::VarStatus> rs(m + 1), cs(n + 1);
      s.getBasis(rs.data(), cs.data());
      printf("GETBASIS %s rows=", id.c_str());

      for(int i = 0; i < m; i++) printf("%c", "ULFZB?"[(int)rs[i] < 0 || (int)rs[i] > 5 ? 5 : (int)rs[i]]);

      printf(", cols=");

      for(int j = 0; j < n; j++) printf("%c", "ULFZB?"[(int)cs[j] < 0 || (int)cs[j] > 5 ? 5 : (int)cs[j]]);

      printf(",\n");
   }

   // room for m + n + 8 entries: an inconsistent basis makes getBasisInd write more than numRows() entries
   std::vector<int> bind(m + n + 8, -99999);
   s.getBasisInd(bind.data());
   int written = 0;

   for(size_t q = 0; q < bind.size(); q++)
      if(bind[q] != -99999)
         written = (int)q + 1;

   printf("BIND %s %s written=%d\n", id.c_str(), intsS(bind, m).c_str(), written);

   if(written > m)
   {
      printf("BINDOVERFLOW %s %s\n", id.c_str(), intsS(bind, written).c_str());
      fflush(stdout);
      return;
   }

   // user matrix (dense) from the case
   std::vector<std::vector<double>> A(m, std::vector<double>(n, 0.0));

   for(int i = 0; i < m && i < (int)L.rows.size(); i++)
      for(auto& e : L.rows[i])
         if(e.first < n)
            A[i][e.first] = num(e.second);

   bool first = true;
   std::vector<int> rexp(m, 0), cexp(n, 0);
   bool scaled = false;

   for(int u = 1; u >= 0; u--)
   {
      bool unscale = (u == 1);

      for(int k = 0; k < m; k++)
      {
         for(int what = 0; what < 2; what++)
         {
            for(int sp = 1; sp >= 0; sp--)
            {
               std::vector<double> coef(m + 1, sp ? 0.0 : SENT);
               std::vector<int> inds(m + 1, -7);
               int ninds = -5;
               bool ret;

               CUR("%s %s %d u=%d sp=%d", id.c_str(), what == 0 ? "ROW" : "COL", k, u, sp);

               try
               {
                  if(what == 0)
                     ret = s.getBasisInverseRowReal(k, coef.data(), sp ? inds.data() : nullptr, &ninds, unscale);
                  else
                     ret = s.getBasisInverseColReal(k, coef.data(), sp ? inds.data() : nullptr, &ninds, unscale);
               }
               catch(const std::exception& e)
               {
                  printf("%s %s %d u=%d sp=%d ret=EXC what=%s\n", what == 0 ? "ROW" : "COL", id.c_str(), k, u, sp, vf::hex(e.what()).c_str());
                  continue;
               }

               if(first)
               {
                  // after the first query the LP is in the solver: read the private scaling state and basis order
                  first = false;
                  scaled = s._realLP->isScaled();
                  printf("STATE %s loaded=%d scaled=%d solverscaled=%d rep=%s scaler=%d\n", id.c_str(), s._isRealLPLoaded ? 1 : 0, scaled ? 1 : 0,
                         s._solver.isScaled() ? 1 : 0, s._solver.rep() == SOL::COLUMN ? "C" : "R", s._scaler != nullptr ? 1 : 0);

                  if(scaled)
                  {
                     const DataArray<int>& re = ((const LPRowSetBase<double>&)(*s._realLP)).scaleExp;   // C-style cast: protected base
                     const DataArray<int>& ce = ((const LPColSetBase<double>&)(*s._realLP)).scaleExp;

                     for(int i = 0; i < m && i < re.size(); i++) rexp[i] = re[i];

                     for(int j = 0; j < n && j < ce.size(); j++) cexp[j] = ce[j];
                  }

                  printf("EXP %s rexp=%s cexp=%s\n", id.c_str(), intsS(rexp, m).c_str(), intsS(cexp, n).c_str());
                  printf("BASEID %s ", id.c_str());

                  for(int i = 0; i < s._solver.basis().matrix.size(); i++)
                  {
                     SPxId bid = s._solver.basis().baseId(i);
                     printf("%s%d,", bid.isSPxRowId() ? "R" : (bid.isSPxColId() ? "C" : "?"), bid.isValid() ? s._solver.number(bid) : -1);
                  }

                  printf("\nSCALEDA %s ", id.c_str());

                  for(int i = 0; i < m; i++)
                  {
                     const SVectorBase<double>& rv = s._realLP->rowVector(i);

                     for(int p = 0; p < rv.size(); p++)
                        printf("%d,%d,%s;", i, rv.index(p), dy(rv.value(p)).c_str());
                  }

                  printf("\n");
               }

               coef.resize(m);
               printf("%s %s %d u=%d sp=%d ret=%d ninds=%d inds=%s coef=%s\n", what == 0 ? "ROW" : "COL", id.c_str(), k, u, sp, ret ? 1 : 0, ninds,
                      intsS(inds, ninds < 0 ? 0 : ninds).c_str(), vecS(coef).c_str());
            }
         }
      }

      // reference basis matrix for the "solve(B v) = v" form: the user's columns, or the stored (scaled) ones for unscale = false
      std::vector<std::vector<double>> Bref(m, std::vector<double>(m, 0.0));

      for(int k = 0; k < m; k++)
      {
         if(bind[k] >= 0 && bind[k] < n)
         {
            for(int i = 0; i < m; i++)
               Bref[i][k] = (scaled && !unscale) ? std::ldexp(A[i][bind[k]], rexp[i] + cexp[bind[k]]) : A[i][bind[k]];
         }
         else if(bind[k] < 0 && -1 - bind[k] < m)
            Bref[-1 - bind[k]][k] = 1.0;
      }

      for(size_t t = 0; t < L.vecs.size(); t++)
      {
         std::vector<double> v = L.vecs[t];
         v.resize(m, 0.0);

         for(int var = 0; var < 2; var++)
         {
            std::vector<double> rhs(m, 0.0), sol(m, SENT);

            if(var == 0)
               rhs = v;
            else
               for(int i = 0; i < m; i++)
                  for(int k = 0; k < m; k++)
                     rhs[i] += Bref[i][k] * v[k];

            std::vector<double> rhs0 = rhs;
            bool ret;
            CUR("%s %s %d u=%d", id.c_str(), var == 0 ? "SOLVE" : "SOLVEB", (int)t, u);

            try
            {
               ret = s.getBasisInverseTimesVecReal(rhs.data(), sol.data(), unscale);
               printf("%s %s %d u=%d ret=%d rhs=%s rhsout=%s sol=%s v=%s\n", var == 0 ? "SOLVE" : "SOLVEB", id.c_str(), (int)t, u, ret ? 1 : 0,
                      vecS(rhs0).c_str(), vecS(rhs).c_str(), vecS(sol).c_str(), vecS(v).c_str());
            }
            catch(const std::exception& e)
            {
               printf("%s %s %d u=%d ret=EXC what=%s\n", var == 0 ? "SOLVE" : "SOLVEB", id.c_str(), (int)t, u, vf::hex(e.what()).c_str());
            }
         }

         for(int what = 0; what < 2; what++)
         {
            std::vector<double> x = v;
            bool ret;
            CUR("%s %s %d u=%d", id.c_str(), what == 0 ? "MULT" : "MULTT", (int)t, u);

            try
            {
               ret = what == 0 ? s.multBasis(x.data(), unscale) : s.multBasisTranspose(x.data(), unscale);
               printf("%s %s %d u=%d ret=%d in=%s out=%s\n", what == 0 ? "MULT" : "MULTT", id.c_str(), (int)t, u, ret ? 1 : 0, vecS(v).c_str(),
                      vecS(x).c_str());
            }
            catch(const std::exception& e)
            {
               printf("%s %s %d u=%d ret=EXC what=%s\n", what == 0 ? "MULT" : "MULTT", id.c_str(), (int)t, u, vf::hex(e.what()).c_str());
            }
         }
      }
   }

   CUR("%s BIND2 0 u=0", id.c_str());
   std::vector<int> bind2(m + n + 8, -99999);
   s.getBasisInd(bind2.data());
   printf("BIND2 %s %s\n", id.c_str(), intsS(bind2, m).c_str());
   printf("LPDUMP %s %s\n", id.c_str(), vf::dumpLPReal(s).c_str());
   fflush(stdout);
}

static void runOne(const CaseLP& L, const std::vector<std::string>& t)
{
   const std::string& id = t[1];

   try
   {
      SP s;
      quiet(s);
      bool ok = true;
      std::string mode = "solve", brows, bcols, chg, addc, addr;

      for(size_t k = 2; k < t.size(); k++)
      {
         if(t[k].compare(0, 5, "mode=") == 0) mode = t[k].substr(5);
         else if(t[k].compare(0, 6, "brows=") == 0) brows = t[k].substr(6);
         else if(t[k].compare(0, 6, "bcols=") == 0) bcols = t[k].substr(6);
         else if(t[k].compare(0, 4, "chg=") == 0) chg = t[k].substr(4);
         else if(t[k].compare(0, 5, "addc=") == 0) addc = t[k].substr(5);
         else if(t[k].compare(0, 5, "addr=") == 0) addr = t[k].substr(5);
         else ok = setParam(s, t[k]) && ok;
      }

      load(s, L);

      if(mode == "solve" || mode == "solveset")
         s.optimize();

      if(mode == "set" || mode == "solveset")
      {
         int m = s.numRows(), n = s.numCols();
         std::vector<SOL::VarStatus> rs(m + 1, SOL::BASIC), cs(n + 1, SOL::ON_LOWER);

         for(int i = 0; i < m && i < (int)brows.size(); i++) rs[i] = varStatus(brows[i]);

         for(int j = 0; j < n && j < (int)bcols.size(); j++) cs[j] = varStatus(bcols[j]);

         s.setBasis(rs.data(), cs.data());
      }

      // coefficient changes between the solve / setBasis and the queries: chg=i:j:value,i:j:value (the queries are then about
      // the basis the solver reports for the CHANGED LP)
      CaseLP L2 = L;

      if(!chg.empty())
      {
         std::stringstream cs(chg);
         std::string item;

         while(std::getline(cs, item, ','))
         {
            size_t a = item.find(':'), b = item.find(':', a + 1);

            if(a == std::string::npos || b == std::string::npos) continue;

            int i = atoi(item.substr(0, a).c_str()), j = atoi(item.substr(a + 1, b - a - 1).c_str());
            std::string v = item.substr(b + 1);

            if(i < 0 || i >= s.numRows() || j < 0 || j >= s.numCols()) continue;

            s.changeElementReal(i, j, num(v));
            bool found = false;

            for(auto& e : L2.rows[i])
               if(e.first == j)
               {
                  e.second = v;
                  found = true;
               }

            if(!found)
               L2.rows[i].push_back({j, v});
         }
      }

      // a column / a row added between the solve / setBasis and the queries (no re-solve): addc=obj:lo:up:i:v:i:v...  addr=lhs:rhs:j:v:j:v...
      auto fields = [](const std::string& str)
      {
         std::vector<std::string> f;
         std::string cur;

         for(char ch : str)
         {
            if(ch == ':')
            {
               f.push_back(cur);
               cur.clear();
            }
            else
               cur += ch;
         }

         f.push_back(cur);
         return f;
      };

      if(!addc.empty())
      {
         auto f = fields(addc);

         if(f.size() >= 3)
         {
            DSVectorBase<double> v;
            int nj = s.numCols();
            L2.obj.push_back(f[0]);
            L2.lo.push_back(f[1]);
            L2.up.push_back(f[2]);

            for(size_t q = 3; q + 1 < f.size(); q += 2)
            {
               int i = atoi(f[q].c_str());

               if(i < 0 || i >= s.numRows()) continue;

               v.add(i, num(f[q + 1]));
               L2.rows[i].push_back({nj, f[q + 1]});
            }

            s.addColReal(LPColBase<double>(num(f[0]), v, num(f[2]), num(f[1])));
         }
      }

      if(!addr.empty())
      {
         auto f = fields(addr);

         if(f.size() >= 2)
         {
            DSVectorBase<double> v;
            std::vector<std::pair<int, std::string>> row;
            L2.lhs.push_back(f[0]);
            L2.rhs.push_back(f[1]);

            for(size_t q = 2; q + 1 < f.size(); q += 2)
            {
               int j = atoi(f[q].c_str());

               if(j < 0 || j >= s.numCols()) continue;

               v.add(j, num(f[q + 1]));
               row.push_back({j, f[q + 1]});
            }

            L2.rows.push_back(row);
            s.addRowReal(LPRowBase<double>(num(f[0]), v, num(f[1])));
         }
      }

      runQueries(s, L2, id + (ok ? "" : "!badparam"));
   }
   catch(const std::exception& e)
   {
      printf("RUN %s status=EXCEPTION what=%s\n", id.c_str(), vf::hex(e.what()).c_str());
   }

   fflush(stdout);
}

int main(int argc, char** argv)
{
   if(argc < 2)
   {
      fprintf(stderr, "usage: C05 <casefile> [nofork]\n");
      return 2;
   }

   bool dofork = argc < 3;
   setvbuf(stdout, nullptr, _IOLBF, 1 << 16);
   std::ifstream in(argv[1]);
   std::string line;
   CaseLP L;
   std::string id;

   while(std::getline(in, line))
   {
      auto t = vf::split(line);

      if(t.empty()) continue;

      if(t[0] == "LP")
      {
         L = CaseLP();
         id = t[1];
         L.maxi = t[2] == "max";
         L.offset = t[3];
         printf("CASE %s\n", id.c_str());
         fflush(stdout);
      }
      else if(t[0] == "C")
      {
         L.obj.push_back(t[1]);
         L.lo.push_back(t[2]);
         L.up.push_back(t[3]);
      }
      else if(t[0] == "R")
      {
         L.lhs.push_back(t[1]);
         L.rhs.push_back(t[2]);
         std::vector<std::pair<int, std::string>> r;

         for(size_t k = 3; k < t.size(); k++)
         {
            size_t c = t[k].find(':');
            r.push_back({atoi(t[k].substr(0, c).c_str()), t[k].substr(c + 1)});
         }

         L.rows.push_back(r);
      }
      else if(t[0] == "VEC")
      {
         std::vector<double> v;
         std::stringstream ss(t.size() > 1 ? t[1] : "");
         std::string w;

         while(std::getline(ss, w, ','))
            if(!w.empty())
               v.push_back(vf::undy(w));

         L.vecs.push_back(v);
      }
      else if(t[0] == "RUN" && t.size() >= 2)
      {
         if(!dofork)
         {
            runOne(L, t);
            continue;
         }

         fflush(stdout);
         pid_t pid = fork();

         if(pid == 0)
         {
            CUR("%s SETUP 0 u=0", t[1].c_str());
            signal(SIGSEGV, onCrash);
            signal(SIGABRT, onCrash);
            signal(SIGFPE, onCrash);
            signal(SIGBUS, onCrash);
            runOne(L, t);
            fflush(stdout);
            _exit(0);
         }

         int st = 0;
         waitpid(pid, &st, 0);

         if(!WIFEXITED(st) || WEXITSTATUS(st) != 0)
         {
            printf("\nCRASH %s sig=%d code=%d\n", t[1].c_str(), WIFSIGNALED(st) ? WTERMSIG(st) : 0, WIFEXITED(st) ? WEXITSTATUS(st) : -1);
            fflush(stdout);
         }
      }
   }

   return 0;
}
