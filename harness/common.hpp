// Shared helpers of the /verif harnesses.  Included after soplex.h.
// Doubles cross to the model as exact dyadics "m:e" (m odd, value = m*2^e), or nan / inf / -inf.
#ifndef VERIF_COMMON_HPP
#define VERIF_COMMON_HPP
#include <cmath>
#include <cstdint>
#include <cstdio>
#include <cstdlib>
#include <cstring>
#include <iostream>
#include <sstream>
#include <string>
#include <vector>

namespace vf
{

inline std::string dy(double x)
{
   if(x != x)
      return "nan";

   if(std::isinf(x))
      return x > 0 ? "inf" : "-inf";

   if(x == 0.0)
      return "0:0";

   int e;
   double m = std::frexp(x, &e);
   long long mm = (long long) std::ldexp(m, 53);
   e -= 53;

   while(mm % 2 == 0)
   {
      mm /= 2;
      e++;
   }

   char buf[64];
   snprintf(buf, sizeof(buf), "%lld:%d", mm, e);
   return buf;
}

inline double undy(const std::string& s)
{
   if(s == "nan")
      return std::nan("");

   if(s == "inf")
      return HUGE_VAL;

   if(s == "-inf")
      return -HUGE_VAL;

   size_t c = s.find(':');
   long long m = atoll(s.substr(0, c).c_str());
   int e = atoi(s.substr(c + 1).c_str());
   return std::ldexp((double) m, e);
}

inline std::string unhex(const std::string& h)
{
   std::string out;

   for(size_t i = 0; i + 1 < h.size(); i += 2)
      out.push_back((char) strtol(h.substr(i, 2).c_str(), nullptr, 16));

   return out;
}

inline std::string hex(const std::string& s)
{
   static const char* d = "0123456789abcdef";
   std::string out;

   for(unsigned char c : s)
   {
      out.push_back(d[c >> 4]);
      out.push_back(d[c & 15]);
   }

   return out;
}

inline std::vector<std::string> split(const std::string& s)
{
   std::vector<std::string> t;
   std::istringstream is(s);
   std::string w;

   while(is >> w)
      t.push_back(w);

   return t;
}

#ifdef _SOPLEX_H_
// canonical dump of the real LP as seen through the public accessors (exact dyadics)
template <class S>
std::string dumpLPReal(S& s)
{
   using namespace soplex;
   std::ostringstream o;
   int m = s.numRows(), n = s.numCols();
   o << "m=" << m << " n=" << n << " sense=" << s.intParam(S::OBJSENSE) << " off=" << dy(s.realParam(S::OBJ_OFFSET));
   o << " obj=";

   for(int j = 0; j < n; j++)
      o << dy(s.objReal(j)) << ",";

   o << " lo=";

   for(int j = 0; j < n; j++)
      o << dy(s.lowerReal(j)) << ",";

   o << " up=";

   for(int j = 0; j < n; j++)
      o << dy(s.upperReal(j)) << ",";

   o << " lhs=";

   for(int i = 0; i < m; i++)
      o << dy(s.lhsReal(i)) << ",";

   o << " rhs=";

   for(int i = 0; i < m; i++)
      o << dy(s.rhsReal(i)) << ",";

   o << " A=";

   for(int i = 0; i < m; i++)
   {
      DSVectorBase<double> r;
      s.getRowVectorReal(i, r);
      std::vector<std::pair<int, double>> es;

      for(int k = 0; k < r.size(); k++)
         es.push_back({r.index(k), r.value(k)});

      std::sort(es.begin(), es.end());

      for(auto& e : es)
         o << i << "," << e.first << "," << dy(e.second) << ";";
   }

   return o.str();
}
#endif

} // namespace vf
#endif
