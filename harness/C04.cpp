// C04 / C14 harness: bases as the user sees them.
//   A case is an LP block (same format as harness/C01.cpp) followed by a script of operations on one SoPlex object
//   "S" (created by NEW).  Every observation is printed on one line "<OP> <tag> key=value ...", exactly (statuses as
//   letters, doubles as dyadics).  Private members are used only (a) to print the state that the model needs (which
//   storage branch is active, raw descriptor, representation, maxObj/maxRowObj) and (b) to put the object into the
//   "LP held outside the solver" state, exactly the way SoPlexBase::_preprocessAndSolveReal does it.
#include "soplex.h"
#include "common.hpp"
#include <fstream>
#include <map>
#include <memory>
#include <unistd.h>

using namespace soplex;
using vf::dy;
typedef SoPlexBase<double> SP;
typedef SPxSolverBase<double> SX;
typedef SPxBasisBase<double>::Desc DS;

static std::ofstream devnull("/dev/null");
static void quiet(SP& s)
{
   for(int v = SPxOut::ERROR; v <= SPxOut::INFO3; v++)
      s.spxout.setStream((SPxOut::Verbosity)v, devnull);
}

struct CaseLP
{
   bool maxi;
   std::string offset;
   std::vector<std::string> obj, lo, up, lhs, rhs;
   std::vector<std::vector<std::pair<int, std::string>>> rows;
};

static double num(const std::string& t)
{
   if(t == "inf") return infinity;

   if(t == "-inf") return -infinity;

   if(t.find(':') != std::string::npos) return vf::undy(t);

   size_t c = t.find('/');

   if(c == std::string::npos) return atof(t.c_str());

   return atof(t.substr(0, c).c_str()) / atof(t.substr(c + 1).c_str());
}

static void load(SP& s, const CaseLP& L)
{
   s.setIntParam(SP::OBJSENSE, L.maxi ? SP::OBJSENSE_MAXIMIZE : SP::OBJSENSE_MINIMIZE);
   DSVector empty(0);

   for(size_t j = 0; j < L.obj.size(); j++)
      s.addColReal(LPCol(num(L.obj[j]), empty, num(L.up[j]), num(L.lo[j])));

   for(size_t i = 0; i < L.rows.size(); i++)
   {
      DSVector r((int)L.rows[i].size());

      for(auto& e : L.rows[i])
         r.add(e.first, num(e.second));

      s.addRowReal(LPRow(num(L.lhs[i]), r, num(L.rhs[i])));
   }

   s.setRealParam(SP::OBJ_OFFSET, num(L.offset));
}

// copy the LP currently held by a (through the public getters) into b
static void copyLP(SP& a, SP& b)
{
   b.setIntParam(SP::OBJSENSE, a.intParam(SP::OBJSENSE));
   DSVector empty(0);

   for(int j = 0; j < a.numCols(); j++)
      b.addColReal(LPCol(a.objReal(j), empty, a.upperReal(j), a.lowerReal(j)));

   for(int i = 0; i < a.numRows(); i++)
   {
      DSVector r;
      a.getRowVectorReal(i, r);
      b.addRowReal(LPRow(a.lhsReal(i), r, a.rhsReal(i)));
   }

   b.setRealParam(SP::OBJ_OFFSET, a.realParam(SP::OBJ_OFFSET));
}

static bool setParam(SP& s, const std::string& kv)
{
   size_t e = kv.find('=');
   std::string k = kv.substr(0, e), v = kv.substr(e + 1);
   auto& st = *s._currentSettings;

   for(int i = 0; i < SP::BOOLPARAM_COUNT; i++)
      if(st.boolParam.name[i] == k)
         return s.setBoolParam((SP::BoolParam)i, v == "1" || v == "true");

   for(int i = 0; i < SP::INTPARAM_COUNT; i++)
      if(st.intParam.name[i] == k)
         return s.setIntParam((SP::IntParam)i, atoi(v.c_str()));

   for(int i = 0; i < SP::REALPARAM_COUNT; i++)
      if(st.realParam.name[i] == k)
         return s.setRealParam((SP::RealParam)i, v.find(':') != std::string::npos ? vf::undy(v) : atof(v.c_str()));

   if(k == "seed")
   {
      s.setRandomSeed((unsigned)strtoul(v.c_str(), nullptr, 10));
      return true;
   }

   return false;
}

static const char* statusName(SX::Status st)
{
   switch(st)
   {
   case SX::ERROR: return "ERROR";
   case SX::NO_RATIOTESTER: return "NO_RATIOTESTER";
   case SX::NO_PRICER: return "NO_PRICER";
   case SX::NO_SOLVER: return "NO_SOLVER";
   case SX::NOT_INIT: return "NOT_INIT";
   case SX::ABORT_CYCLING: return "ABORT_CYCLING";
   case SX::ABORT_TIME: return "ABORT_TIME";
   case SX::ABORT_ITER: return "ABORT_ITER";
   case SX::ABORT_VALUE: return "ABORT_VALUE";
   case SX::SINGULAR: return "SINGULAR";
   case SX::NO_PROBLEM: return "NO_PROBLEM";
   case SX::REGULAR: return "REGULAR";
   case SX::RUNNING: return "RUNNING";
   case SX::UNKNOWN: return "UNKNOWN";
   case SX::OPTIMAL: return "OPTIMAL";
   case SX::UNBOUNDED: return "UNBOUNDED";
   case SX::INFEASIBLE: return "INFEASIBLE";
   case SX::INForUNBD: return "INForUNBD";
   case SX::OPTIMAL_UNSCALED_VIOLATIONS: return "OPTIMAL_UNSCALED_VIOLATIONS";
   default: return "OTHER";
   }
}

static char vsChar(SX::VarStatus s)
{
   switch(s)
   {
   case SX::ON_UPPER: return 'U';
   case SX::ON_LOWER: return 'L';
   case SX::FIXED: return 'F';
   case SX::ZERO: return 'Z';
   case SX::BASIC: return 'B';
   case SX::UNDEFINED: return '?';
   default: return '#';
   }
}

static SX::VarStatus vsOf(char c)
{
   switch(c)
   {
   case 'U': return SX::ON_UPPER;
   case 'L': return SX::ON_LOWER;
   case 'F': return SX::FIXED;
   case 'Z': return SX::ZERO;
   case 'B': return SX::BASIC;
   default: return SX::UNDEFINED;
   }
}

static char dsChar(DS::Status s)
{
   switch(s)
   {
   case DS::P_ON_LOWER: return 'l';
   case DS::P_ON_UPPER: return 'u';
   case DS::P_FREE: return 'z';
   case DS::P_FIXED: return 'f';
   case DS::D_FREE: return 'E';
   case DS::D_ON_UPPER: return 'U';
   case DS::D_ON_LOWER: return 'L';
   case DS::D_ON_BOTH: return 'B';
   case DS::D_UNDEFINED: return 'X';
   default: return '#';
   }
}

static DS::Status dsOf(char c)
{
   switch(c)
   {
   case 'l': return DS::P_ON_LOWER;
   case 'u': return DS::P_ON_UPPER;
   case 'z': return DS::P_FREE;
   case 'f': return DS::P_FIXED;
   case 'E': return DS::D_FREE;
   case 'U': return DS::D_ON_UPPER;
   case 'L': return DS::D_ON_LOWER;
   case 'B': return DS::D_ON_BOTH;
   default: return DS::D_UNDEFINED;
   }
}

// "-" stands for the empty string in status arguments
static std::string arg(const std::string& t)
{
   return t == "-" ? std::string() : t;
}

struct Ctx
{
   std::unique_ptr<SP> s;
   NameSet rn, cn;
   std::vector<std::string> params;
   CaseLP L;
   std::string dir;
   std::string id;
};

static std::string readAll(const std::string& p)
{
   std::ifstream f(p, std::ios::binary);
   std::ostringstream o;
   o << f.rdbuf();
   return o.str();
}

// ---- the state the user can see + the private facts the model needs, on one line ----
static void dump(SP& s, const char* op, const std::string& tag, bool withA)
{
   int m = s.numRows(), n = s.numCols();
   bool has = s.hasBasis();
   bool loaded = s._isRealLPLoaded;
   printf("%s %s has=%d loaded=%d rep=%s bstat=%d m=%d n=%d sense=%d", op, tag.c_str(), has ? 1 : 0, loaded ? 1 : 0,
          s._solver.rep() == SX::COLUMN ? "C" : "R", (int)s._solver.basis().status(), m, n, s.intParam(SP::OBJSENSE));
   printf(" lo=");

   for(int j = 0; j < n; j++) printf("%s,", dy(s.lowerReal(j)).c_str());

   printf(" up=");

   for(int j = 0; j < n; j++) printf("%s,", dy(s.upperReal(j)).c_str());

   printf(" lhs=");

   for(int i = 0; i < m; i++) printf("%s,", dy(s.lhsReal(i)).c_str());

   printf(" rhs=");

   for(int i = 0; i < m; i++) printf("%s,", dy(s.rhsReal(i)).c_str());

   // what loadDesc / primalColStatus read
   printf(" mobj=");

   for(int j = 0; j < n; j++) printf("%s,", dy(s._realLP->maxObj(j)).c_str());

   printf(" mrobj=");

   for(int i = 0; i < m; i++) printf("%s,", dy(s._realLP->maxRowObj(i)).c_str());

   int szr = s._basisStatusRows.size(), szc = s._basisStatusCols.size();
   printf(" szr=%d szc=%d", szr, szc);
   bool safe = !has || loaded || (szr == m && szc == n);

   if(safe)
   {
      std::vector<SX::VarStatus> rs(m + 1), cs(n + 1);
      s.getBasis(rs.data(), cs.data());
      printf(" rows=");

      for(int i = 0; i < m; i++) printf("%c", vsChar(rs[i]));

      printf(", cols=");

      for(int j = 0; j < n; j++) printf("%c", vsChar(cs[j]));

      printf(", prow=");

      for(int i = 0; i < m; i++) printf("%c", vsChar(s.basisRowStatus(i)));

      printf(", pcol=");

      for(int j = 0; j < n; j++) printf("%c", vsChar(s.basisColStatus(j)));

      printf(",");
      // getBasisInd writes numRows entries when the basis is consistent; when the stored arrays hold another number of
      // BASIC entries the loop of the unloaded branch writes that many: give it room and report how many were written
      int nb = 0;

      for(int i = 0; i < m; i++) nb += rs[i] == SX::BASIC;

      for(int j = 0; j < n; j++) nb += cs[j] == SX::BASIC;

      std::vector<int> bind(m + n + 2, 9999);
      bool indok = true;

      if(has && loaded && s._solver.rep() == SX::COLUMN && s._solver.basis().status() <= SPxBasisBase<double>::NO_PROBLEM)
         indok = false;

      if(indok)
      {
         s.getBasisInd(bind.data());
         printf(" ind=");

         for(int k = 0; k < m + n + 2 && bind[k] != 9999; k++) printf("%d,", bind[k]);

         printf(";");
      }
   }
   else
      printf(" unsafe=1");

   if(loaded && s._solver.basis().status() > SPxBasisBase<double>::NO_PROBLEM
         && s._solver.basis().desc().nRows() == m && s._solver.basis().desc().nCols() == n)
   {
      printf(" drows=");

      for(int i = 0; i < m; i++) printf("%c", dsChar(s._solver.basis().desc().rowStatus(i)));

      printf(", dcols=");

      for(int j = 0; j < n; j++) printf("%c", dsChar(s._solver.basis().desc().colStatus(j)));

      printf(",");
   }

   if(withA)
   {
      printf(" A=");

      for(int i = 0; i < m; i++)
      {
         DSVectorBase<double> r;
         s.getRowVectorReal(i, r);

         for(int k = 0; k < r.size(); k++)
            printf("%d,%d,%s;", i, r.index(k), dy(r.value(k)).c_str());
      }

      printf(" obj=");

      for(int j = 0; j < n; j++) printf("%s,", dy(s.objReal(j)).c_str());

      printf(" off=%s", dy(s.realParam(SP::OBJ_OFFSET)).c_str());
   }

   printf("\n");
   fflush(stdout);
}

static void reportSolve(SP& s, const char* op, const std::string& tag)
{
   printf("%s %s status=%s iters=%d rep=%s loaded=%d has=%d", op, tag.c_str(), statusName(s.status()), s.numIterations(),
          s._solver.rep() == SX::COLUMN ? "C" : "R", s._isRealLPLoaded ? 1 : 0, s.hasBasis() ? 1 : 0);

   if(s.hasSol() && s.isPrimalFeasible())
      printf(" obj=%s", dy(s.objValueReal()).c_str());

   printf(" ps=");

   if(s._simplifier != nullptr)
      for(int k = 0; k < s._simplifierMainSM.m_stat.size(); k++)
         if(s._simplifierMainSM.m_stat[k] > 0)
            printf("%d:%d;", k, s._simplifierMainSM.m_stat[k]);

   printf(",\n");
   fflush(stdout);
}

// put the object into the state "original LP kept outside the solver, no basis" -- the statements of
// SoPlexBase::_preprocessAndSolveReal (copyLP branch); a solve that ends with a status of the default branch of
// _evaluateSolutionReal leaves exactly this state behind
static void detach(SP& s)
{
   if(!s._isRealLPLoaded)
      return;

   s._realLP = nullptr;
   spx_alloc(s._realLP);
   s._realLP = new(s._realLP) SPxLPBase<double>(s._solver);
   s._isRealLPLoaded = false;
   s._hasBasis = false;
}

static void newSolver(Ctx& c, const std::vector<std::string>& t, size_t from)
{
   c.s.reset(new SP());
   quiet(*c.s);
   c.params.clear();
   bool pub = false;

   for(size_t k = from; k < t.size(); k++)
   {
      if(t[k] == "pubdetach=1")
      {
         pub = true;
         continue;
      }

      c.params.push_back(t[k]);
      setParam(*c.s, t[k]);
   }

   if(pub)
   {
      // public route into the "LP outside" state: solve the empty LP with a scaler (the LP is copied for scaling, the
      // solver throws "no problem loaded", the status falls into the default branch of _evaluateSolutionReal)
      try
      {
         c.s->optimize();
      }
      catch(...)
      {
      }

      printf("PUBDETACH %s loaded=%d has=%d status=%s\n", c.id.c_str(), c.s->_isRealLPLoaded ? 1 : 0, c.s->hasBasis() ? 1 : 0,
             statusName(c.s->status()));
   }

   load(*c.s, c.L);
}

static void makeNames(Ctx& c, const std::vector<std::string>& t)
{
   // NAMES r <name>... | NAMES c <name>...
   NameSet& ns = (t[1] == "r") ? c.rn : c.cn;
   ns.clear();

   for(size_t k = 2; k < t.size(); k++)
      ns.add(t[k].c_str());
}

static std::unique_ptr<SP> freshLike(Ctx& c, const std::vector<std::string>& over)
{
   std::unique_ptr<SP> b(new SP());
   quiet(*b);

   for(auto& p : c.params) setParam(*b, p);

   for(auto& p : over) setParam(*b, p);

   copyLP(*c.s, *b);
   return b;
}

static void paramDump(SP& s, const char* op, const std::string& tag)
{
   auto& st = *s._currentSettings;
   printf("%s %s", op, tag.c_str());

   for(int i = 0; i < SP::BOOLPARAM_COUNT; i++)
      printf(" b:%s=%d", st.boolParam.name[i].c_str(), s.boolParam((SP::BoolParam)i) ? 1 : 0);

   for(int i = 0; i < SP::INTPARAM_COUNT; i++)
      printf(" i:%s=%d", st.intParam.name[i].c_str(), s.intParam((SP::IntParam)i));

   for(int i = 0; i < SP::REALPARAM_COUNT; i++)
      printf(" r:%s=%s", st.realParam.name[i].c_str(), dy(s.realParam((SP::RealParam)i)).c_str());

   printf(" u:seed=%u\n", s.randomSeed());
}

int main(int argc, char** argv)
{
   if(argc < 2)
   {
      fprintf(stderr, "usage: C04 <casefile> [scratchdir]\n");
      return 2;
   }

   std::ifstream in(argv[1]);
   std::string line;
   Ctx c;
   c.dir = argc > 2 ? argv[2] : "/tmp";
   char pidbuf[32];
   snprintf(pidbuf, sizeof(pidbuf), "%d", (int)getpid());
   std::string base = c.dir + "/c04h-" + pidbuf;
   std::string lastBas = base + ".bas";

   while(std::getline(in, line))
   {
      auto t = vf::split(line);

      if(t.empty()) continue;

      const std::string& op = t[0];

      try
      {
         if(op == "LP")
         {
            c.L = CaseLP();
            c.id = t[1];
            c.L.maxi = t[2] == "max";
            c.L.offset = t[3];
            c.s.reset();
            c.rn.clear();
            c.cn.clear();
            printf("CASE %s\n", c.id.c_str());
         }
         else if(op == "C")
         {
            c.L.obj.push_back(t[1]);
            c.L.lo.push_back(t[2]);
            c.L.up.push_back(t[3]);
         }
         else if(op == "R")
         {
            c.L.lhs.push_back(t[1]);
            c.L.rhs.push_back(t[2]);
            std::vector<std::pair<int, std::string>> r;

            for(size_t k = 3; k < t.size(); k++)
            {
               size_t q = t[k].find(':');
               r.push_back({atoi(t[k].substr(0, q).c_str()), t[k].substr(q + 1)});
            }

            c.L.rows.push_back(r);
         }
         else if(op == "NEW")
            newSolver(c, t, 1);
         else if(op == "NAMES")
            makeNames(c, t);
         else if(op == "PARAM")
         {
            for(size_t k = 1; k < t.size(); k++)
            {
               c.params.push_back(t[k]);
               setParam(*c.s, t[k]);
            }
         }
         else if(op == "REP")
         {
            // representation switch as done by _solveRealLPAndRecordStatistics
            c.s->_solver.setRep(t[1] == "R" ? SX::ROW : SX::COLUMN);
         }
         else if(op == "DETACH")
            detach(*c.s);
         else if(op == "SETB")
         {
            // SETB tag rows cols
            std::string rs = arg(t[2]), cs = arg(t[3]);
            std::vector<SX::VarStatus> r(rs.size() + 1), cl(cs.size() + 1);

            for(size_t i = 0; i < rs.size(); i++) r[i] = vsOf(rs[i]);

            for(size_t j = 0; j < cs.size(); j++) cl[j] = vsOf(cs[j]);

            int exc = 0;

            try
            {
               c.s->setBasis(r.data(), cl.data());
            }
            catch(const SPxException& e)
            {
               exc = 1;
            }

            printf("SETB %s exc=%d\n", t[1].c_str(), exc);
         }
         else if(op == "ENUM")
         {
            // ENUM tag alphabet : every status array over the alphabet -> setBasis -> all queries, one compact line each
            std::string al = t[2];
            SP& s = *c.s;
            int m = s.numRows(), n = s.numCols(), len = m + n;
            std::vector<int> idx(len, 0);
            bool done = false;

            while(!done)
            {
               std::vector<SX::VarStatus> r(m + 1), cl(n + 1);
               std::string rs, cs;

               for(int i = 0; i < m; i++)
               {
                  rs.push_back(al[idx[i]]);
                  r[i] = vsOf(al[idx[i]]);
               }

               for(int j = 0; j < n; j++)
               {
                  cs.push_back(al[idx[m + j]]);
                  cl[j] = vsOf(al[idx[m + j]]);
               }

               int exc = 0;

               try
               {
                  s.setBasis(r.data(), cl.data());
               }
               catch(const SPxException& e)
               {
                  exc = 1;
               }

               printf("E %s %s x=%d", rs.empty() ? "-" : rs.c_str(), cs.empty() ? "-" : cs.c_str(), exc);

               if(!exc)
               {
                  std::vector<SX::VarStatus> gr(m + 1), gc(n + 1);
                  s.getBasis(gr.data(), gc.data());
                  printf(" h=%d g=", s.hasBasis() ? 1 : 0);

                  for(int i = 0; i < m; i++) printf("%c", vsChar(gr[i]));

                  printf(",");

                  for(int j = 0; j < n; j++) printf("%c", vsChar(gc[j]));

                  printf(" p=");

                  for(int i = 0; i < m; i++) printf("%c", vsChar(s.basisRowStatus(i)));

                  printf(",");

                  for(int j = 0; j < n; j++) printf("%c", vsChar(s.basisColStatus(j)));

                  std::vector<int> bind(len + 2, 9999);
                  s.getBasisInd(bind.data());
                  printf(" i=");

                  for(int k = 0; k < len + 2 && bind[k] != 9999; k++) printf("%d,", bind[k]);

                  if(s._isRealLPLoaded)
                  {
                     printf(" d=");

                     for(int i = 0; i < m; i++) printf("%c", dsChar(s._solver.basis().desc().rowStatus(i)));

                     printf(",");

                     for(int j = 0; j < n; j++) printf("%c", dsChar(s._solver.basis().desc().colStatus(j)));
                  }
               }

               DataArray<SX::VarStatus> vr(m), vc(n);

               for(int i = 0; i < m; i++) vr[i] = r[i];

               for(int j = 0; j < n; j++) vc[j] = cl[j];

               printf(" v=%d\n", s._solver.isBasisValid(vr, vc) ? 1 : 0);
               int k = len - 1;

               while(k >= 0 && ++idx[k] == (int)al.size())
                  idx[k--] = 0;

               if(k < 0) done = true;
            }
         }
         else if(op == "VALID")
         {
            // VALID tag rows cols : SPxSolverBase::isBasisValid on the LP inside the solver
            std::string rs = arg(t[2]), cs = arg(t[3]);
            DataArray<SX::VarStatus> r((int)rs.size()), cl((int)cs.size());

            for(size_t i = 0; i < rs.size(); i++) r[(int)i] = vsOf(rs[i]);

            for(size_t j = 0; j < cs.size(); j++) cl[(int)j] = vsOf(cs[j]);

            bool v = c.s->_solver.isBasisValid(r, cl);
            printf("VALID %s loaded=%d rep=%s valid=%d\n", t[1].c_str(), c.s->_isRealLPLoaded ? 1 : 0,
                   c.s->_solver.rep() == SX::COLUMN ? "C" : "R", v ? 1 : 0);
         }
         else if(op == "LOADDESC")
         {
            // LOADDESC tag drows dcols : SPxBasisBase::loadDesc / isDescValid kernels on the solver's LP
            std::string rs = arg(t[2]), cs = arg(t[3]);
            SX& sv = c.s->_solver;

            SPxBasisBase<double>& B = const_cast<SPxBasisBase<double>&>(sv.basis());

            if(B.status() == SPxBasisBase<double>::NO_PROBLEM)
               B.load(&sv, false);

            sv.setBasisStatus(SPxBasisBase<double>::REGULAR);
            DS d(B.desc());

            for(size_t i = 0; i < rs.size(); i++) d.rowStatus((int)i) = dsOf(rs[i]);

            for(size_t j = 0; j < cs.size(); j++) d.colStatus((int)j) = dsOf(cs[j]);

            bool v0 = B.isDescValid(d);
            sv.unInit();
            B.loadDesc(d);
            bool v1 = B.isDescValid(B.desc());
            printf("LOADDESC %s rep=%s valid_in=%d valid_out=%d drows=", t[1].c_str(), sv.rep() == SX::COLUMN ? "C" : "R", v0 ? 1 : 0,
                   v1 ? 1 : 0);

            for(int i = 0; i < sv.nRows(); i++) printf("%c", dsChar(B.desc().rowStatus(i)));

            printf(", dcols=");

            for(int j = 0; j < sv.nCols(); j++) printf("%c", dsChar(B.desc().colStatus(j)));

            printf(",\n");
            c.s->_hasBasis = true;
         }
         else if(op == "DUMP")
            dump(*c.s, "DUMP", t[1], t.size() > 2 && t[2] == "A");
         else if(op == "CLEARB")
            c.s->clearBasis();
         else if(op == "SOLVE")
         {
            // SOLVE tag S|F|C [k=v ...]   S: same object; F: fresh object started from S's current basis; C: fresh, cold
            std::vector<std::string> over(t.begin() + 3, t.end());

            if(t[2] == "S")
            {
               for(auto& p : over) setParam(*c.s, p);

               c.s->optimize();
               reportSolve(*c.s, "SOLVE", t[1]);
            }
            else
            {
               auto b = freshLike(c, over);

               if(t[2] == "F" && c.s->hasBasis())
               {
                  int m = c.s->numRows(), n = c.s->numCols();
                  std::vector<SX::VarStatus> rs(m + 1), cs(n + 1);
                  c.s->getBasis(rs.data(), cs.data());
                  b->setBasis(rs.data(), cs.data());
               }

               b->optimize();
               reportSolve(*b, "SOLVE", t[1]);
            }
         }
         else if(op == "MOD")
         {
            // MOD tag kind args
            const std::string& k = t[2];
            SP& s = *c.s;

            if(k == "addrow")
            {
               DSVector r;

               for(size_t q = 5; q < t.size(); q++)
               {
                  size_t z = t[q].find(':');
                  r.add(atoi(t[q].substr(0, z).c_str()), num(t[q].substr(z + 1)));
               }

               s.addRowReal(LPRow(num(t[3]), r, num(t[4])));
            }
            else if(k == "addcol")
            {
               DSVector v;

               for(size_t q = 6; q < t.size(); q++)
               {
                  size_t z = t[q].find(':');
                  v.add(atoi(t[q].substr(0, z).c_str()), num(t[q].substr(z + 1)));
               }

               s.addColReal(LPCol(num(t[3]), v, num(t[5]), num(t[4])));
            }
            else if(k == "chglo") s.changeLowerReal(atoi(t[3].c_str()), num(t[4]));
            else if(k == "chgup") s.changeUpperReal(atoi(t[3].c_str()), num(t[4]));
            else if(k == "chgbounds") s.changeBoundsReal(atoi(t[3].c_str()), num(t[4]), num(t[5]));
            else if(k == "chglhs") s.changeLhsReal(atoi(t[3].c_str()), num(t[4]));
            else if(k == "chgrhs") s.changeRhsReal(atoi(t[3].c_str()), num(t[4]));
            else if(k == "chgrange") s.changeRangeReal(atoi(t[3].c_str()), num(t[4]), num(t[5]));
            else if(k == "chgobj") s.changeObjReal(atoi(t[3].c_str()), num(t[4]));
            else if(k == "chgelem") s.changeElementReal(atoi(t[3].c_str()), atoi(t[4].c_str()), num(t[5]));
            else if(k == "rmrow") s.removeRowReal(atoi(t[3].c_str()));
            else if(k == "rmcol") s.removeColReal(atoi(t[3].c_str()));
            else if(k == "rmrows" || k == "rmcols")
            {
               // mask string of 0/1 (1 = remove)
               std::string mk = arg(t[3]);
               std::vector<int> perm(mk.size() + 1);

               for(size_t q = 0; q < mk.size(); q++) perm[q] = mk[q] == '1' ? -1 : 0;

               if(k == "rmrows") s.removeRowsReal(perm.data());
               else s.removeColsReal(perm.data());
            }

            printf("MOD %s kind=%s has=%d loaded=%d\n", t[1].c_str(), k.c_str(), s.hasBasis() ? 1 : 0, s._isRealLPLoaded ? 1 : 0);
         }
         else if(op == "WBAS")
         {
            // WBAS tag names(0/1) cpx(0/1)
            bool names = t[2] == "1", cpx = t[3] == "1";
            unlink(lastBas.c_str());
            bool ok = c.s->writeBasisFile(lastBas.c_str(), names ? &c.rn : nullptr, names ? &c.cn : nullptr, cpx);
            printf("WBAS %s ok=%d loaded=%d rtsz=%d text=%s,\n", t[1].c_str(), ok ? 1 : 0, c.s->_isRealLPLoaded ? 1 : 0,
                   c.s->_rowTypes.size(), vf::hex(readAll(lastBas)).c_str());
         }
         else if(op == "WBASK")
         {
            // kernel: SPxBasisBase::writeBasis with the format flag (the file-level function of the solver drops it)
            bool names = t[2] == "1", cpx = t[3] == "1";
            std::ostringstream o;
            c.s->_solver.basis().writeBasis(o, names ? &c.rn : nullptr, names ? &c.cn : nullptr, cpx);
            printf("WBASK %s ok=1 loaded=%d text=%s,\n", t[1].c_str(), c.s->_isRealLPLoaded ? 1 : 0, vf::hex(o.str()).c_str());
         }
         else if(op == "RBAS" || op == "RBASTXT")
         {
            // RBAS tag names ; RBASTXT tag names hextext
            bool names = t[2] == "1";

            if(op == "RBASTXT")
            {
               std::ofstream f(lastBas, std::ios::binary);
               f << vf::unhex(t.size() > 3 ? t[3] : "");
            }

            bool ok = c.s->readBasisFile(lastBas.c_str(), names ? &c.rn : nullptr, names ? &c.cn : nullptr);
            printf("%s %s ok=%d\n", op.c_str(), t[1].c_str(), ok ? 1 : 0);
         }
         else if(op == "STATE")
         {
            // STATE tag names(0/1) cpx(0/1) readnames(0/1) [settingsfirst(0/1)]: writeStateReal(prefix, ..., cpx, writeZeroObjective = true), then a new
            // object: readFile + readBasisFile + loadSettingsFile; everything observable of both objects is printed
            bool names = t[2] == "1", cpx = t[3] == "1", rnames = t[4] == "1";
            // order of loading: 0 = LP, basis, settings; 1 = settings, LP, basis (the order of the soplex binary)
            bool setFirst = t.size() > 5 && t[5] == "1";
            std::string pre = base + "-st";
            SP& s = *c.s;
            s.writeStateReal(pre.c_str(), names ? &c.rn : nullptr, names ? &c.cn : nullptr, cpx, true);
            std::string lpf = pre + (cpx ? ".lp" : ".mps");
            printf("STATEFILES %s bas=%s,\n", t[1].c_str(), vf::hex(readAll(pre + ".bas")).c_str());
            SP b;
            quiet(b);
            NameSet rn2, cn2;
            bool okS = false;

            if(setFirst)
               okS = b.loadSettingsFile((pre + ".set").c_str());

            bool okLP = b.readFile(lpf.c_str(), &rn2, &cn2);
            bool okB = okLP && b.readBasisFile((pre + ".bas").c_str(), rnames ? &rn2 : nullptr, rnames ? &cn2 : nullptr);

            if(!setFirst)
               okS = b.loadSettingsFile((pre + ".set").c_str());
            printf("STATE %s okLP=%d okBas=%d okSet=%d\n", t[1].c_str(), okLP ? 1 : 0, okB ? 1 : 0, okS ? 1 : 0);
            dump(s, "STATE-A", t[1], true);
            dump(b, "STATE-B", t[1], true);
            paramDump(s, "STATEPAR-A", t[1]);
            paramDump(b, "STATEPAR-B", t[1]);
            // names as read back
            printf("STATENAMES %s r=", t[1].c_str());

            for(int i = 0; i < rn2.num(); i++) printf("%s,", vf::hex(rn2[i]).c_str());

            printf(" c=");

            for(int j = 0; j < cn2.num(); j++) printf("%s,", vf::hex(cn2[j]).c_str());

            printf(";\n");
            b.optimize();
            reportSolve(b, "STATESOLVE-B", t[1]);
            unlink(lpf.c_str());
            unlink((pre + ".bas").c_str());
            unlink((pre + ".set").c_str());
         }
         else if(op == "EXACTFB")
         {
            // exact solve with forced basic solutions on a fresh object holding S's LP
            SP b;
            quiet(b);
            b.setIntParam(SP::SYNCMODE, SP::SYNCMODE_AUTO);
            b.setIntParam(SP::SOLVEMODE, SP::SOLVEMODE_RATIONAL);
            b.setIntParam(SP::CHECKMODE, SP::CHECKMODE_RATIONAL);
            b.setRealParam(SP::FEASTOL, 0.0);
            b.setRealParam(SP::OPTTOL, 0.0);
            b.setBoolParam(SP::FORCEBASIC, true);

            for(size_t k = 2; k < t.size(); k++) setParam(b, t[k]);

            load(b, c.L);
            b.optimize();
            int m = b.numRows(), n = b.numCols();
            printf("EXACTFB %s status=%s has=%d", t[1].c_str(), statusName(b.status()), b.hasBasis() ? 1 : 0);
            VectorRational x(n), y(m), d(n), sl(m);

            if(b.isPrimalFeasible() && b.getPrimalRational(x) && b.getSlacksRational(sl))
            {
               printf(" x=");

               for(int j = 0; j < n; j++) printf("%s,", x[j].str().c_str());

               printf(" s=");

               for(int i = 0; i < m; i++) printf("%s,", sl[i].str().c_str());
            }

            if(b.isDualFeasible() && b.getDualRational(y) && b.getRedCostRational(d))
            {
               printf(" y=");

               for(int i = 0; i < m; i++) printf("%s,", y[i].str().c_str());

               printf(" d=");

               for(int j = 0; j < n; j++) printf("%s,", d[j].str().c_str());
            }

            if(b.hasBasis())
            {
               std::vector<SX::VarStatus> rs(m + 1), cs(n + 1);
               b.getBasis(rs.data(), cs.data());
               printf(" rows=");

               for(int i = 0; i < m; i++) printf("%c", vsChar(rs[i]));

               printf(", cols=");

               for(int j = 0; j < n; j++) printf("%c", vsChar(cs[j]));

               printf(",");
            }

            printf("\n");
         }
         else
            printf("BADOP %s\n", op.c_str());
      }
      catch(const SPxException& e)
      {
         printf("EXC %s op=%s what=%s\n", t.size() > 1 ? t[1].c_str() : "-", op.c_str(), vf::hex(e.what()).c_str());
      }
      catch(const std::exception& e)
      {
         printf("EXC %s op=%s what=%s\n", t.size() > 1 ? t[1].c_str() : "-", op.c_str(), vf::hex(e.what()).c_str());
      }

      fflush(stdout);
   }

   unlink(lastBas.c_str());
   return 0;
}
