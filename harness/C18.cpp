// C18 harness: several threads each create, fill, solve, query and destroy their own solver objects.
// Input: workloads in the LP block format of harness/C01.cpp, each followed by  WORK <id> <real|exact> k=v ...
// then   THREADS <n>   runs all workloads sequentially (reference digests) and again distributed over n threads.
#include "soplex.h"
#include "common.hpp"
#include <fstream>
#include <cstring>
#include <thread>
#include <atomic>

using namespace soplex;
using vf::dy;
typedef SoPlexBase<double> SP;

// ---- static storage of this executable (.data and .bss: the statically linked library's namespace-scope, class-static and
// function-local static objects; thread_local objects live elsewhere).  Snapshots before / after the workloads show which
// static objects are written after static initialisation.
extern "C" char __data_start, _edata, __bss_start, _end;

static std::vector<unsigned char> snapStatic()
{
   std::vector<unsigned char> v;
   v.insert(v.end(), (unsigned char*)&__data_start, (unsigned char*)&_edata);
   v.insert(v.end(), (unsigned char*)&__bss_start, (unsigned char*)&_end);
   return v;
}

static void diffStatic(const char* phase, const std::vector<unsigned char>& a, const std::vector<unsigned char>& b)
{
   size_t nd = (size_t)(&_edata - &__data_start);
   printf("STATIC phase=%s data=%p bss=%p ranges=", phase, (void*)&__data_start, (void*)&__bss_start);

   for(size_t k = 0; k < a.size() && k < b.size();)
   {
      if(a[k] == b[k])
      {
         k++;
         continue;
      }

      size_t e = k;

      while(e < a.size() && (a[e] != b[e] || (e + 8 < a.size() && memcmp(&a[e], &b[e], 8) != 0)))
         e++;

      const char* base = k < nd ? &__data_start : &__bss_start;
      size_t off = k < nd ? k : k - nd;
      printf("%p:%zu,", (void*)(base + off), e - k);
      k = e;
   }

   printf("\n");
   fflush(stdout);
}

struct CaseLP
{
   bool maxi;
   std::string offset;
   std::vector<std::string> obj, lo, up, lhs, rhs;
   std::vector<std::vector<std::pair<int, std::string>>> rows;
};

struct Work
{
   std::string id;
   bool exact;
   std::vector<std::string> params;
   CaseLP lp;
};

static double num(const std::string& t)
{
   if(t == "inf") return infinity;

   if(t == "-inf") return -infinity;

   size_t c = t.find('/');

   if(c == std::string::npos) return atof(t.c_str());

   return atof(t.substr(0, c).c_str()) / atof(t.substr(c + 1).c_str());
}

static void load(SP& s, const CaseLP& L)
{
   s.setIntParam(SP::OBJSENSE, L.maxi ? SP::OBJSENSE_MAXIMIZE : SP::OBJSENSE_MINIMIZE);
   DSVector empty(0);

   for(size_t j = 0; j < L.obj.size(); j++)
      s.addColReal(LPCol(num(L.obj[j]), empty, num(L.up[j]), num(L.lo[j])));

   for(size_t i = 0; i < L.rows.size(); i++)
   {
      DSVector r((int)L.rows[i].size());

      for(auto& e : L.rows[i])
         r.add(e.first, num(e.second));

      s.addRowReal(LPRow(num(L.lhs[i]), r, num(L.rhs[i])));
   }

   s.setRealParam(SP::OBJ_OFFSET, num(L.offset));
}

static bool setParam(SP& s, const std::string& kv)
{
   size_t e = kv.find('=');
   std::string k = kv.substr(0, e), v = kv.substr(e + 1);
   auto& st = *s._currentSettings;

   for(int i = 0; i < SP::BOOLPARAM_COUNT; i++)
      if(st.boolParam.name[i] == k)
         return s.setBoolParam((SP::BoolParam)i, v == "1");

   for(int i = 0; i < SP::INTPARAM_COUNT; i++)
      if(st.intParam.name[i] == k)
         return s.setIntParam((SP::IntParam)i, atoi(v.c_str()));

   for(int i = 0; i < SP::REALPARAM_COUNT; i++)
      if(st.realParam.name[i] == k)
         return s.setRealParam((SP::RealParam)i, atof(v.c_str()));

   return false;
}

// one complete life cycle; returns a digest of everything observed
static std::string runWork(const Work& w)
{
   std::ostringstream o;

   try
   {
      SP s;
      s.setIntParam(SP::VERBOSITY, 0);

      if(w.exact)
      {
         s.setIntParam(SP::SYNCMODE, SP::SYNCMODE_AUTO);
         s.setIntParam(SP::SOLVEMODE, SP::SOLVEMODE_RATIONAL);
         s.setIntParam(SP::CHECKMODE, SP::CHECKMODE_RATIONAL);
         s.setRealParam(SP::FEASTOL, 0.0);
         s.setRealParam(SP::OPTTOL, 0.0);
      }

      for(auto& p : w.params) setParam(s, p);

      load(s, w.lp);
      s.optimize();
      int n = s.numCols(), m = s.numRows();
      o << "st=" << (int)s.status() << " it=" << s.numIterations();

      if(w.exact)
      {
         VectorRational x(n), y(m);

         if(s.isPrimalFeasible() && s.getPrimalRational(x))
            for(int j = 0; j < n; j++) o << " " << x[j].str();

         if(s.isDualFeasible() && s.getDualRational(y))
            for(int i = 0; i < m; i++) o << " " << y[i].str();
      }
      else
      {
         VectorBase<double> x(n), y(m);

         if(s.isPrimalFeasible() && s.getPrimal(x))
         {
            o << " obj=" << dy(s.objValueReal());

            for(int j = 0; j < n; j++) o << " " << dy(x[j]);
         }

         if(s.isDualFeasible() && s.getDual(y))
            for(int i = 0; i < m; i++) o << " " << dy(y[i]);
      }

      // modify and solve again
      if(n > 0)
      {
         s.changeObjReal(0, s.objReal(0) + 1.0);
         s.optimize();
         o << " st2=" << (int)s.status() << " it2=" << s.numIterations();

         if(!w.exact && s.isPrimalFeasible())
            o << " obj2=" << dy(s.objValueReal());
      }
   }
   catch(const std::exception& e)
   {
      o << " EXC";
   }

   return o.str();
}

int main(int argc, char** argv)
{
   if(argc < 2)
   {
      fprintf(stderr, "usage: C18 <casefile>\n");
      return 2;
   }

   std::ifstream in(argv[1]);
   std::string line;
   CaseLP L;
   std::vector<Work> works;
   std::vector<unsigned char> snap0 = snapStatic();    // after static initialisation, before any solver object exists
   bool first = true;

   while(std::getline(in, line))
   {
      auto t = vf::split(line);

      if(t.empty()) continue;

      if(t[0] == "LP")
      {
         L = CaseLP();
         L.maxi = t[2] == "max";
         L.offset = t[3];
      }
      else if(t[0] == "C")
      {
         L.obj.push_back(t[1]);
         L.lo.push_back(t[2]);
         L.up.push_back(t[3]);
      }
      else if(t[0] == "R")
      {
         L.lhs.push_back(t[1]);
         L.rhs.push_back(t[2]);
         std::vector<std::pair<int, std::string>> r;

         for(size_t k = 3; k < t.size(); k++)
         {
            size_t c = t[k].find(':');
            r.push_back({atoi(t[k].substr(0, c).c_str()), t[k].substr(c + 1)});
         }

         L.rows.push_back(r);
      }
      else if(t[0] == "WORK")
      {
         Work w;
         w.id = t[1];
         w.exact = t[2] == "exact";

         for(size_t k = 3; k < t.size(); k++) w.params.push_back(t[k]);

         w.lp = L;
         works.push_back(w);
      }
      else if(t[0] == "THREADS")
      {
         int nt = atoi(t[1].c_str());
         std::vector<std::string> seq(works.size()), par(works.size());

         for(size_t k = 0; k < works.size(); k++)
            seq[k] = runWork(works[k]);

         std::vector<unsigned char> snap1 = snapStatic();

         if(first)
            diffStatic("first-sequential-pass", snap0, snap1);

         first = false;
         std::vector<std::thread> th;
         std::atomic<int> go(0);

         for(int a = 0; a < nt; a++)
            th.emplace_back([&, a]()
         {
            while(!go.load()) {}

            for(size_t k = a; k < works.size(); k += nt)
               par[k] = runWork(works[k]);
         });

         go.store(1);

         for(auto& x : th) x.join();

         {
            std::vector<unsigned char> snap2 = snapStatic();
            diffStatic("threaded-pass", snap1, snap2);
         }

         for(size_t k = 0; k < works.size(); k++)
            printf("RES threads=%d work=%s same=%d seq=%s par=%s\n", nt, works[k].id.c_str(), seq[k] == par[k] ? 1 : 0,
                   vf::hex(seq[k]).c_str(), seq[k] == par[k] ? "-" : vf::hex(par[k]).c_str());

         fflush(stdout);
      }
   }

   return 0;
}
