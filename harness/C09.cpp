// C09 harness: scaling is invisible.
//   bare mode : SPxScaler::scale / unscale, the *Unscaled getters, the scale* functions, the six solution unscale maps
//               and the vector change*(…, scale = true) overloads on a bare SPxLPBase<double>, for each of the six
//               scalers; the chosen exponents are read from LPRowSetBase::scaleExp / LPColSetBase::scaleExp.
//   user mode : the same API history on two SoPlex objects, A without scaler and B with scaler k and persistent
//               scaling on/off; after every step the LP as seen through the user-level accessors, the vector getters and
//               writeFile(unscale = true), B's stored (scaled) LP with its exponents, and after a solve the solution
//               vectors of both.
// Doubles are printed as exact dyadics.  Compiled against /repo/src on every tree state (see vlib.build_harness).
#include "soplex.h"
#include "common.hpp"
#include <algorithm>
#include <csetjmp>
#include <csignal>
#include <fstream>
#include <map>
#include <memory>
#include <tuple>
#include <unistd.h>

using namespace soplex;
using vf::dy;
using vf::undy;
typedef SoPlexBase<double> SP;
typedef std::tuple<int, int, double> Trip;

static std::ofstream devnull("/dev/null");

// ---------------------------------------------------------------------------------------------- parsing
static std::map<std::string, std::string> fields(const std::vector<std::string>& tok, size_t from)
{
   std::map<std::string, std::string> f;

   for(size_t k = from; k < tok.size(); k++)
   {
      size_t e = tok[k].find('=');

      if(e != std::string::npos)
         f[tok[k].substr(0, e)] = tok[k].substr(e + 1);
   }

   return f;
}

static std::vector<std::string> splitc(const std::string& s, char c)
{
   std::vector<std::string> out;
   std::string cur;

   for(char ch : s)
   {
      if(ch == c)
      {
         if(!cur.empty())
            out.push_back(cur);

         cur.clear();
      }
      else
         cur.push_back(ch);
   }

   if(!cur.empty())
      out.push_back(cur);

   return out;
}

static std::vector<double> dlist(const std::string& s)
{
   std::vector<double> v;

   for(auto& t : splitc(s, ','))
      v.push_back(undy(t));

   return v;
}

// "j:v,j:v" (dyadic values contain ':' themselves: index is up to the first ':')
static DSVectorBase<double> svec(const std::string& s)
{
   DSVectorBase<double> v;

   if(s == "-")
      return v;

   for(auto& t : splitc(s, ','))
   {
      size_t c = t.find(':');
      v.add(atoi(t.substr(0, c).c_str()), undy(t.substr(c + 1)));
   }

   return v;
}

struct CaseLP
{
   int m = 0, n = 0, sense = 1;
   std::vector<double> obj, lo, up, lhs, rhs, robj;
   std::vector<Trip> A;
};

static CaseLP parseLP(const std::vector<std::string>& tok)
{
   auto f = fields(tok, 1);
   CaseLP c;
   c.m = atoi(f["m"].c_str());
   c.n = atoi(f["n"].c_str());
   c.sense = atoi(f["sense"].c_str());
   c.obj = dlist(f["obj"]);
   c.lo = dlist(f["lo"]);
   c.up = dlist(f["up"]);
   c.lhs = dlist(f["lhs"]);
   c.rhs = dlist(f["rhs"]);
   c.robj = dlist(f["robj"]);

   if(c.robj.empty())
      c.robj.assign(c.m, 0.0);

   for(auto& t : splitc(f["A"], ';'))
   {
      auto p = splitc(t, ',');
      c.A.push_back(Trip(atoi(p[0].c_str()), atoi(p[1].c_str()), undy(p[2])));
   }

   return c;
}

// ---------------------------------------------------------------------------------------------- dumps
static std::string vecs(const std::vector<double>& v)
{
   std::string o;

   for(double x : v)
      o += dy(x) + ",";

   return o;
}

static std::string vecs(const VectorBase<double>& v)
{
   std::string o;

   for(int i = 0; i < v.dim(); i++)
      o += dy(v[i]) + ",";

   return o;
}

static std::string trips(std::vector<Trip> t)
{
   std::sort(t.begin(), t.end(), [](const Trip & a, const Trip & b)
   {
      return std::make_pair(std::get<0>(a), std::get<1>(a)) < std::make_pair(std::get<0>(b), std::get<1>(b));
   });
   std::ostringstream o;

   for(auto& e : t)
      o << std::get<0>(e) << "," << std::get<1>(e) << "," << dy(std::get<2>(e)) << ";";

   return o.str();
}

// the LP as stored (maxObj, bounds, sides, maxRowObj, row file; the column file must hold the same entries)
static std::string dumpInternal(const SPxLPBase<double>& lp)
{
   std::ostringstream o;
   int m = lp.nRows(), n = lp.nCols();
   o << "m=" << m << " n=" << n << " sense=" << (lp.spxSense() == SPxLPBase<double>::MAXIMIZE ? 1 : -1);
   o << " obj=";

   for(int j = 0; j < n; j++)
      o << dy(lp.maxObj(j)) << ",";

   o << " lo=";

   for(int j = 0; j < n; j++)
      o << dy(lp.lower(j)) << ",";

   o << " up=";

   for(int j = 0; j < n; j++)
      o << dy(lp.upper(j)) << ",";

   o << " lhs=";

   for(int i = 0; i < m; i++)
      o << dy(lp.lhs(i)) << ",";

   o << " rhs=";

   for(int i = 0; i < m; i++)
      o << dy(lp.rhs(i)) << ",";

   o << " robj=";

   for(int i = 0; i < m; i++)
      o << dy(lp.maxRowObj(i)) << ",";

   std::vector<Trip> rf, cf;

   for(int i = 0; i < m; i++)
   {
      const SVectorBase<double>& r = lp.rowVector(i);

      for(int k = 0; k < r.size(); k++)
         rf.push_back(Trip(i, r.index(k), r.value(k)));
   }

   for(int j = 0; j < n; j++)
   {
      const SVectorBase<double>& c = lp.colVector(j);

      for(int k = 0; k < c.size(); k++)
         cf.push_back(Trip(c.index(k), j, c.value(k)));
   }

   std::string a = trips(rf), b = trips(cf);
   o << " A=" << a;

   if(a == b)
      o << " cf=ok";
   else
      o << " cf=DIFF:" << b;

   return o.str();
}

static std::string exps(const SPxLPBase<double>& lp)
{
   std::ostringstream o;
   const DataArray<int>& r = ((const LPRowSetBase<double>&)lp).scaleExp;   // C-style cast: protected base
   const DataArray<int>& c = ((const LPColSetBase<double>&)lp).scaleExp;
   o << "R=";

   for(int i = 0; i < lp.nRows(); i++)
      o << (i < r.size() ? r[i] : 0) << ",";

   o << " C=";

   for(int j = 0; j < lp.nCols(); j++)
      o << (j < c.size() ? c[j] : 0) << ",";

   o << " rsz=" << r.size() << " csz=" << c.size();
   return o.str();
}

// ---------------------------------------------------------------------------------------------- bare mode
static void buildLP(SPxLPBase<double>& lp, const CaseLP& c)
{
   lp.changeSense(c.sense == 1 ? SPxLPBase<double>::MAXIMIZE : SPxLPBase<double>::MINIMIZE);

   for(int j = 0; j < c.n; j++)
   {
      DSVectorBase<double> e;
      lp.addCol(LPColBase<double>(c.obj[j], e, c.up[j], c.lo[j]));
   }

   for(int i = 0; i < c.m; i++)
   {
      DSVectorBase<double> v;

      for(auto& t : c.A)
         if(std::get<0>(t) == i)
            v.add(std::get<1>(t), std::get<2>(t));

      lp.addRow(LPRowBase<double>(c.lhs[i], v, c.rhs[i], c.robj[i]));
   }
}

static void runBare(int kind, bool persistent, const CaseLP& c, const std::vector<double>& xc,
                    const std::vector<double>& xr)
{
   std::shared_ptr<Tolerances> tol = std::make_shared<Tolerances>();
   SPxOut out;
   out.setVerbosity(SPxOut::ERROR);

   for(int v = SPxOut::ERROR; v <= SPxOut::INFO3; v++)
      out.setStream((SPxOut::Verbosity)v, devnull);

   SPxLPBase<double> lp;
   lp.setOutstream(out);
   lp.setTolerances(tol);
   buildLP(lp, c);
   printf("orig %s\n", dumpInternal(lp).c_str());

   // the six scalers exactly as SoPlexBase constructs them
   SPxEquiliSC<double> uni(false), bi(true);
   SPxGeometSC<double> g1(false, 1), g8(false, 8), ge(true);
   SPxLeastSqSC<double> ls;
   SPxScaler<double>* sc = nullptr;

   switch(kind)
   {
   case 1: sc = &uni; break;
   case 2: sc = &bi; break;
   case 3: sc = &g1; break;
   case 4: sc = &g8; break;
   case 5: sc = &ls; break;
   default: sc = &ge; break;
   }

   sc->setOutstream(out);
   sc->setTolerances(tol);
   sc->scale(lp, persistent);
   printf("exps %s name=%s scaled=%d\n", exps(lp).c_str(), sc->getName(), lp.isScaled() ? 1 : 0);
   printf("stored %s\n", dumpInternal(lp).c_str());
   int m = lp.nRows(), n = lp.nCols();
   {
      // getters on the scaled LP
      std::ostringstream o;
      o << "get slo=";

      for(int j = 0; j < n; j++) o << dy(lp.lowerUnscaled(j)) << ",";

      o << " sup=";

      for(int j = 0; j < n; j++) o << dy(lp.upperUnscaled(j)) << ",";

      o << " slhs=";

      for(int i = 0; i < m; i++) o << dy(lp.lhsUnscaled(i)) << ",";

      o << " srhs=";

      for(int i = 0; i < m; i++) o << dy(lp.rhsUnscaled(i)) << ",";

      o << " sobj=";

      for(int j = 0; j < n; j++) o << dy(lp.maxObjUnscaled(j)) << ",";

      VectorBase<double> vl(n), vu(n), vo(n), vlh(m), vrh(m);
      lp.getLowerUnscaled(vl);
      lp.getUpperUnscaled(vu);
      lp.maxObjUnscaled(vo);
      lp.getLhsUnscaled(vlh);
      lp.getRhsUnscaled(vrh);
      o << " vlo=" << vecs(vl) << " vup=" << vecs(vu) << " vlhs=" << vecs(vlh) << " vrhs=" << vecs(vrh) << " vobj=" << vecs(vo);
      std::vector<Trip> ur, uc, ue;

      for(int i = 0; i < m; i++)
      {
         DSVectorBase<double> r;
         lp.getRowVectorUnscaled(i, r);

         for(int k = 0; k < r.size(); k++)
         {
            ur.push_back(Trip(i, r.index(k), r.value(k)));
            ue.push_back(Trip(i, r.index(k), sc->getCoefUnscaled(lp, i, r.index(k))));
         }
      }

      for(int j = 0; j < n; j++)
      {
         DSVectorBase<double> cv;
         lp.getColVectorUnscaled(j, cv);

         for(int k = 0; k < cv.size(); k++)
            uc.push_back(Trip(cv.index(k), j, cv.value(k)));
      }

      o << " urow=" << trips(ur) << " ucol=" << trips(uc) << " ucoef=" << trips(ue);
      printf("%s\n", o.str().c_str());
   }
   {
      // the six solution unscale maps on probe vectors
      VectorBase<double> a(n), b(m);
      std::ostringstream o;
      o << "sol";

      for(int j = 0; j < n; j++) a[j] = xc[j];

      sc->unscalePrimal(lp, a);
      o << " primal=" << vecs(a);

      for(int i = 0; i < m; i++) b[i] = xr[i];

      sc->unscaleSlacks(lp, b);
      o << " slacks=" << vecs(b);

      for(int i = 0; i < m; i++) b[i] = xr[i];

      sc->unscaleDual(lp, b);
      o << " dual=" << vecs(b);

      for(int j = 0; j < n; j++) a[j] = xc[j];

      sc->unscaleRedCost(lp, a);
      o << " redcost=" << vecs(a);

      for(int j = 0; j < n; j++) a[j] = xc[j];

      sc->unscalePrimalray(lp, a);
      o << " pray=" << vecs(a);

      for(int i = 0; i < m; i++) b[i] = xr[i];

      sc->unscaleDualray(lp, b);
      o << " dray=" << vecs(b);
      printf("%s\n", o.str().c_str());
   }
   {
      // scale* of single data with the current exponents
      std::ostringstream o;
      o << "sc obj=";

      for(int j = 0; j < n; j++) o << dy(sc->scaleObj(lp, j, xc[j])) << ",";

      o << " lo=";

      for(int j = 0; j < n; j++) o << dy(sc->scaleLower(lp, j, xc[j])) << ",";

      o << " up=";

      for(int j = 0; j < n; j++) o << dy(sc->scaleUpper(lp, j, xc[j])) << ",";

      o << " lhs=";

      for(int i = 0; i < m; i++) o << dy(sc->scaleLhs(lp, i, xr[i])) << ",";

      o << " rhs=";

      for(int i = 0; i < m; i++) o << dy(sc->scaleRhs(lp, i, xr[i])) << ",";

      o << " el=";

      for(int i = 0; i < m; i++)
         for(int j = 0; j < n; j++)
            o << dy(sc->scaleElement(lp, i, j, xc[j])) << ",";

      VectorBase<double> a(n);

      for(int j = 0; j < n; j++) a[j] = xc[j];

      sc->scaleObj(lp, a);
      o << " vobj=" << vecs(a);
      printf("%s\n", o.str().c_str());
   }
   {
      SPxLPBase<double> lp2(lp);
      lp2.unscaleLP();
      printf("unscaled %s scaled=%d\n", dumpInternal(lp2).c_str(), lp2.isScaled() ? 1 : 0);
   }
   {
      // the user re-submits his own bounds and sides through the vector overloads while the LP is scaled
      VectorBase<double> vl(n), vu(n), vlh(m), vrh(m);

      for(int j = 0; j < n; j++)
      {
         vl[j] = c.lo[j];
         vu[j] = c.up[j];
      }

      for(int i = 0; i < m; i++)
      {
         vlh[i] = c.lhs[i];
         vrh[i] = c.rhs[i];
      }

      lp.changeLower(vl, true);
      lp.changeUpper(vu, true);
      lp.changeLhs(vlh, true);
      lp.changeRhs(vrh, true);
      printf("chg lo=%s up=%s lhs=%s rhs=%s\n", vecs(lp.lower()).c_str(), vecs(lp.upper()).c_str(),
             vecs(lp.lhs()).c_str(), vecs(lp.rhs()).c_str());

      // and through the single-index overloads
      for(int j = 0; j < n; j++)
      {
         lp.changeLower(j, c.lo[j], true);
         lp.changeUpper(j, c.up[j], true);
      }

      for(int i = 0; i < m; i++)
      {
         lp.changeLhs(i, c.lhs[i], true);
         lp.changeRhs(i, c.rhs[i], true);
      }

      printf("chg1 lo=%s up=%s lhs=%s rhs=%s\n", vecs(lp.lower()).c_str(), vecs(lp.upper()).c_str(),
             vecs(lp.lhs()).c_str(), vecs(lp.rhs()).c_str());
   }
}

// ---------------------------------------------------------------------------------------------- user mode
static void quiet(SP& s)
{
   for(int v = SPxOut::ERROR; v <= SPxOut::INFO3; v++)
      s.spxout.setStream((SPxOut::Verbosity)v, devnull);

   s.setIntParam(SP::VERBOSITY, 0);
}

static sigjmp_buf jb, probejb;
static sigjmp_buf* volatile activejb = nullptr;
static volatile int lastsig = 0;
static bool handlers = true;
static void onsig(int sig)
{
   lastsig = sig;

   if(activejb != nullptr)
      siglongjmp(*activejb, 1);

   _exit(4);
}

// After setIntParam(SCALER, SCALER_OFF) on a persistently scaled LP, _scaler is null while the LP is still scaled and
// coefReal / getRowVectorReal (as written) call a virtual function through it.  The harness probes one such call under
// the signal handler and reports the state instead of dying; the LP is then read through SPxLPBase::getRowVectorUnscaled.
// (C09_NOGUARD=1 in the environment disables the guard to demonstrate the crash.)
static bool nullScaler(SP& s)
{
   static bool noguard = getenv("C09_NOGUARD") != nullptr;

   if(noguard || !(s._realLP->isScaled() && s._scaler == nullptr))
      return false;

   if(!handlers || s.numRows() == 0 || s.numCols() == 0)
      return true;

   sigjmp_buf* outer = activejb;
   bool crashed = false;

   if(sigsetjmp(probejb, 1) == 0)
   {
      activejb = &probejb;
      DSVectorBase<double> r;
      s.getRowVectorReal(0, r);
      volatile double c = s.coefReal(0, 0);
      (void)c;
   }
   else
      crashed = true;

   activejb = outer;
   return crashed;
}

// the LP as the user sees it
static std::string dumpUser(SP& s)
{
   std::ostringstream o;
   int m = s.numRows(), n = s.numCols();
   bool ns = nullScaler(s);
   o << "m=" << m << " n=" << n << " sense=" << s.intParam(SP::OBJSENSE);
   o << " obj=";

   for(int j = 0; j < n; j++) o << dy(s.objReal(j)) << ",";

   o << " lo=";

   for(int j = 0; j < n; j++) o << dy(s.lowerReal(j)) << ",";

   o << " up=";

   for(int j = 0; j < n; j++) o << dy(s.upperReal(j)) << ",";

   o << " lhs=";

   for(int i = 0; i < m; i++) o << dy(s.lhsReal(i)) << ",";

   o << " rhs=";

   for(int i = 0; i < m; i++) o << dy(s.rhsReal(i)) << ",";

   std::vector<Trip> ur, uc;
   std::string coefbad;

   for(int i = 0; i < m; i++)
   {
      DSVectorBase<double> r;

      if(ns)
         s._realLP->getRowVectorUnscaled(i, r);      // getRowVectorReal would dereference the null _scaler
      else
         s.getRowVectorReal(i, r);

      for(int k = 0; k < r.size(); k++)
      {
         ur.push_back(Trip(i, r.index(k), r.value(k)));

         if(!ns && coefbad.empty())
         {
            double cv = s.coefReal(i, r.index(k));

            if(dy(cv) != dy(r.value(k)))
            {
               std::ostringstream b;
               b << i << "," << r.index(k) << "," << dy(cv);
               coefbad = b.str();
            }
         }
      }
   }

   for(int j = 0; j < n; j++)
   {
      DSVectorBase<double> cv;
      s.getColVectorReal(j, cv);

      for(int k = 0; k < cv.size(); k++)
         uc.push_back(Trip(cv.index(k), j, cv.value(k)));
   }

   std::string a = trips(ur), b = trips(uc);
   o << " A=" << a << (a == b ? " cols=ok" : " cols=DIFF:" + b) << " coef=" << (coefbad.empty() ? "ok" : coefbad);
   VectorBase<double> vl(n), vu(n), vo(n), vlh(m), vrh(m);
   s.getLowerReal(vl);
   s.getUpperReal(vu);
   s.getObjReal(vo);
   s.getLhsReal(vlh);
   s.getRhsReal(vrh);
   o << " vlo=" << vecs(vl) << " vup=" << vecs(vu) << " vlhs=" << vecs(vlh) << " vrhs=" << vecs(vrh) << " vobj=" << vecs(vo);

   if(ns)
      o << " nullscaler=1";

   return o.str();
}

static std::string slurp(const std::string& p)
{
   std::ifstream f(p.c_str());
   std::stringstream ss;
   ss << f.rdbuf();
   return ss.str();
}

static std::string dumpSol(SP& s, SPxSolverBase<double>::Status st)
{
   std::ostringstream o;
   int m = s.numRows(), n = s.numCols();
   o << "status=" << (int)st << " hassol=" << (s.hasSol() ? 1 : 0);

   if(s.hasSol())
      o << " objval=" << dy(s.objValueReal());

   VectorBase<double> x(n), d(n), sl(m), y(m);

   if(s.isPrimalFeasible() && s.getPrimal(x))
      o << " x=" << vecs(x);

   if(s.isPrimalFeasible() && s.getSlacksReal(sl))
      o << " s=" << vecs(sl);

   if(s.isDualFeasible() && s.getDual(y))
      o << " y=" << vecs(y);

   if(s.isDualFeasible() && s.getRedCost(d))
      o << " d=" << vecs(d);

   if(s.hasPrimalRay() && s.getPrimalRay(x))
      o << " ray=" << vecs(x);

   if(s.hasDualFarkas() && s.getDualFarkas(y))
      o << " farkas=" << vecs(y);

   return o.str();
}

static std::string rundir = "/tmp";

static void observe(SP& A, SP& B, int k, const std::string& name)
{
   printf("OP %d %s\n", k, name.c_str());
   printf("A %s\n", dumpUser(A).c_str());
   printf("B %s\n", dumpUser(B).c_str());
   {
      std::ostringstream o;
      o << "BI scaled=" << (B._realLP->isScaled() ? 1 : 0) << " irs=" << (B._isRealLPScaled ? 1 : 0) << " loaded=" <<
        (B._isRealLPLoaded ? 1 : 0) << " uc=" << B._unscaleCalls << " oc=" << B._optimizeCalls << " " << exps(*B._realLP);

      if(B._realLP->isScaled())
         o << " stored:" << dumpInternal(*B._realLP);

      printf("%s\n", o.str().c_str());
   }
   {
      char fa[512], fb[512];
      snprintf(fa, sizeof(fa), "%s/C09.%d.A.lp", rundir.c_str(), (int)getpid());
      snprintf(fb, sizeof(fb), "%s/C09.%d.B.lp", rundir.c_str(), (int)getpid());
      A.writeFile(fa, nullptr, nullptr, nullptr, true);
      B.writeFile(fb, nullptr, nullptr, nullptr, true);
      std::string ta = slurp(fa), tb = slurp(fb);

      if(ta == tb)
         printf("F same %d\n", (int)ta.size());
      else
         printf("F diff %s %s\n", vf::hex(ta).c_str(), vf::hex(tb).c_str());

      unlink(fa);
      unlink(fb);
   }
}

static void setupSP(SP& s, int scaler, bool persistent, int simp, int sense)
{
   quiet(s);
   s.setIntParam(SP::OBJSENSE, sense);
   s.setIntParam(SP::SCALER, scaler);
   s.setBoolParam(SP::PERSISTENTSCALING, persistent);
   s.setIntParam(SP::SIMPLIFIER, simp);
   s.setRealParam(SP::TIMELIMIT, 10.0);
   s.setIntParam(SP::ITERLIMIT, 5000);
}

static void loadSP(SP& s, const CaseLP& c)
{
   for(int j = 0; j < c.n; j++)
   {
      DSVectorBase<double> e;
      s.addColReal(LPColBase<double>(c.obj[j], e, c.up[j], c.lo[j]));
   }

   for(int i = 0; i < c.m; i++)
   {
      DSVectorBase<double> v;

      for(auto& t : c.A)
         if(std::get<0>(t) == i)
            v.add(std::get<1>(t), std::get<2>(t));

      s.addRowReal(LPRowBase<double>(c.lhs[i], v, c.rhs[i]));
   }
}

static VectorBase<double> tovec(const std::vector<double>& v)
{
   VectorBase<double> r((int)v.size());

   for(size_t i = 0; i < v.size(); i++)
      r[(int)i] = v[i];

   return r;
}

// applies one operation to one object; returns false if the operation is not applicable (dimension mismatch)
static bool applyOp(SP& s, bool isB, const std::vector<std::string>& t, SPxSolverBase<double>::Status& st, bool& solved)
{
   const std::string& op = t[1];
   int m = s.numRows(), n = s.numCols();
   auto I = [&](size_t k) { return atoi(t[k].c_str()); };
   auto D = [&](size_t k) { return undy(t[k]); };
   solved = false;

   if(op == "solve")
   {
      st = s.optimize();
      solved = true;
   }
   else if(op == "chg_lo") { if(I(2) >= n) return false; s.changeLowerReal(I(2), D(3)); }
   else if(op == "chg_up") { if(I(2) >= n) return false; s.changeUpperReal(I(2), D(3)); }
   else if(op == "chg_lhs") { if(I(2) >= m) return false; s.changeLhsReal(I(2), D(3)); }
   else if(op == "chg_rhs") { if(I(2) >= m) return false; s.changeRhsReal(I(2), D(3)); }
   else if(op == "chg_obj") { if(I(2) >= n) return false; s.changeObjReal(I(2), D(3)); }
   else if(op == "chg_el") { if(I(2) >= m || I(3) >= n) return false; s.changeElementReal(I(2), I(3), D(4)); }
   else if(op == "chg_bounds") { if(I(2) >= n) return false; s.changeBoundsReal(I(2), D(3), D(4)); }
   else if(op == "chg_range") { if(I(2) >= m) return false; s.changeRangeReal(I(2), D(3), D(4)); }
   else if(op == "vchg_lo") { auto v = dlist(t[2]); if((int)v.size() != n) return false; s.changeLowerReal(tovec(v)); }
   else if(op == "vchg_up") { auto v = dlist(t[2]); if((int)v.size() != n) return false; s.changeUpperReal(tovec(v)); }
   else if(op == "vchg_lhs") { auto v = dlist(t[2]); if((int)v.size() != m) return false; s.changeLhsReal(tovec(v)); }
   else if(op == "vchg_rhs") { auto v = dlist(t[2]); if((int)v.size() != m) return false; s.changeRhsReal(tovec(v)); }
   else if(op == "vchg_obj") { auto v = dlist(t[2]); if((int)v.size() != n) return false; s.changeObjReal(tovec(v)); }
   else if(op == "vchg_bounds")
   {
      auto v = dlist(t[2]), w = dlist(t[3]);

      if((int)v.size() != n || (int)w.size() != n) return false;

      s.changeBoundsReal(tovec(v), tovec(w));
   }
   else if(op == "vchg_range")
   {
      auto v = dlist(t[2]), w = dlist(t[3]);

      if((int)v.size() != m || (int)w.size() != m) return false;

      s.changeRangeReal(tovec(v), tovec(w));
   }
   else if(op == "add_row")
   {
      DSVectorBase<double> v = svec(t[4]);
      s.addRowReal(LPRowBase<double>(D(2), v, D(3)));
   }
   else if(op == "add_col")
   {
      DSVectorBase<double> v = svec(t[5]);
      s.addColReal(LPColBase<double>(D(2), v, D(4), D(3)));
   }
   else if(op == "add_rows")
   {
      // add_rows lhs rhs vec lhs rhs vec ...
      LPRowSetBase<double> set;

      for(size_t k = 2; k + 2 < t.size(); k += 3)
      {
         DSVectorBase<double> v = svec(t[k + 2]);
         set.add(D(k), v, D(k + 1));
      }

      s.addRowsReal(set);
   }
   else if(op == "add_cols")
   {
      // add_cols obj lo up vec ...
      LPColSetBase<double> set;

      for(size_t k = 2; k + 3 < t.size(); k += 4)
      {
         DSVectorBase<double> v = svec(t[k + 3]);
         set.add(D(k), D(k + 1), v, D(k + 2));
      }

      s.addColsReal(set);
   }
   else if(op == "chg_row")
   {
      if(I(2) >= m) return false;

      DSVectorBase<double> v = svec(t[5]);

      for(int k = 0; k < v.size(); k++)
         if(v.index(k) >= n) return false;

      s.changeRowReal(I(2), LPRowBase<double>(D(3), v, D(4)));
   }
   else if(op == "chg_col")
   {
      if(I(2) >= n) return false;

      DSVectorBase<double> v = svec(t[6]);

      for(int k = 0; k < v.size(); k++)
         if(v.index(k) >= m) return false;

      s.changeColReal(I(2), LPColBase<double>(D(3), v, D(5), D(4)));
   }
   else if(op == "rm_row") { if(I(2) >= m) return false; s.removeRowReal(I(2)); }
   else if(op == "rm_col") { if(I(2) >= n) return false; s.removeColReal(I(2)); }
   else if(op == "rm_rows")
   {
      std::vector<int> perm(m, 0);
      bool any = false;

      for(auto& x : splitc(t[2], ','))
         if(atoi(x.c_str()) < m)
         {
            perm[atoi(x.c_str())] = -1;
            any = true;
         }

      if(!any) return false;

      s.removeRowsReal(perm.data());
   }
   else if(op == "rm_cols")
   {
      std::vector<int> perm(n, 0);
      bool any = false;

      for(auto& x : splitc(t[2], ','))
         if(atoi(x.c_str()) < n)
         {
            perm[atoi(x.c_str())] = -1;
            any = true;
         }

      if(!any) return false;

      s.removeColsReal(perm.data());
   }
   else if(op == "sense") { s.setIntParam(SP::OBJSENSE, I(2)); }
   else if(op == "scaler") { if(isB) s.setIntParam(SP::SCALER, I(2)); }
   else if(op == "persist") { if(isB) s.setBoolParam(SP::PERSISTENTSCALING, I(2) != 0); }
   else if(op == "simp") { s.setIntParam(SP::SIMPLIFIER, I(2)); }
   else if(op == "clearbasis") { s.clearBasis(); }
   else
      return false;

   return true;
}

static void runUser(int scaler, bool persistent, int simp, const CaseLP& c, const std::vector<std::vector<std::string>>& ops)
{
   // the objects are leaked on purpose when a signal aborts the case
   SP* pa = new SP();
   SP* pb = new SP();
   SP& A = *pa;
   SP& B = *pb;
   setupSP(A, 0, false, simp, c.sense);
   setupSP(B, scaler, persistent, simp, c.sense);
   loadSP(A, c);
   loadSP(B, c);
   observe(A, B, 0, "load");
   int k = 0;

   for(auto t : ops)
   {
      k++;

      // sc_lo / sc_up / sc_lhs / sc_rhs <index>: the change function is called with the value the SCALED object stores internally for
      // that bound or side (the scaled image of the current value): a guard that compares the user's value with the stored one
      // sees "nothing to do".  Both objects get the same call.
      if(t.size() >= 3 && t[1].compare(0, 3, "sc_") == 0)
      {
         int idx = atoi(t[2].c_str());
         const std::string what = t[1].substr(3);
         bool rowop = what == "lhs" || what == "rhs";
         double v = 0.0;
         bool ok = idx >= 0 && idx < (rowop ? B.numRows() : B.numCols()) && idx < (rowop ? A.numRows() : A.numCols());

         if(ok)
         {
            const SPxLPBase<double>& L = *B._realLP;
            v = what == "lo" ? L.lower(idx) : what == "up" ? L.upper(idx) : what == "lhs" ? L.lhs(idx) : L.rhs(idx);
            ok = std::fabs(v) < 1e90;

            if(ok && what == "lo") ok = v <= B.upperReal(idx);
            if(ok && what == "up") ok = v >= B.lowerReal(idx);
            if(ok && what == "lhs") ok = v <= B.rhsReal(idx);
            if(ok && what == "rhs") ok = v >= B.lhsReal(idx);
         }

         if(!ok)
         {
            printf("OP %d %s skipped\n", k, t[1].c_str());
            continue;
         }

         t = {t[0], "chg_" + what, t[2], vf::dy(v)};
      }

      SPxSolverBase<double>::Status sa = SPxSolverBase<double>::UNKNOWN, sb = SPxSolverBase<double>::UNKNOWN;
      bool solved = false;
      std::string ea, eb;
      bool oka = false, okb = false;

      try
      {
         oka = applyOp(A, false, t, sa, solved);
      }
      catch(const SPxException& x)
      {
         ea = x.what();
      }

      try
      {
         okb = applyOp(B, true, t, sb, solved);
      }
      catch(const SPxException& x)
      {
         eb = x.what();
      }

      if(!oka && !okb && ea.empty() && eb.empty())
      {
         printf("OP %d %s skipped\n", k, t[1].c_str());
         continue;
      }

      observe(A, B, k, t[1]);

      if(!ea.empty() || !eb.empty())
         printf("EXC A=%s B=%s\n", vf::hex(ea).c_str(), vf::hex(eb).c_str());

      if(solved)
      {
         printf("AS %s\n", dumpSol(A, sa).c_str());
         printf("BS %s\n", dumpSol(B, sb).c_str());
      }
   }

   delete pa;
   delete pb;
}

int main(int argc, char** argv)
{
   if(argc < 3 || strcmp(argv[1], "run"))
   {
      fprintf(stderr, "usage: C09 run <casefile> [first-case-index] [rundir]\n");
      return 2;
   }

   int first = argc >= 4 ? atoi(argv[3]) : 0;

   if(argc >= 5)
      rundir = argv[4];

   handlers = getenv("C09_NOHANDLER") == nullptr;
   std::ifstream in(argv[2]);
   std::string line;
   printf("INF %s\n", dy(soplex::infinity).c_str());
   int idx = -1;
   std::string id, mode;
   int scaler = 0, persistent = 0, simp = 0;
   CaseLP c;
   std::vector<double> xc, xr;
   std::vector<std::vector<std::string>> ops;

   while(std::getline(in, line))
   {
      auto t = vf::split(line);

      if(t.empty())
         continue;

      if(t[0] == "CASE")
      {
         idx++;
         id = t[1];
         mode = t[2];
         scaler = atoi(t[3].c_str());
         persistent = atoi(t[4].c_str());
         simp = t.size() > 5 ? atoi(t[5].c_str()) : 0;
         ops.clear();
         xc.clear();
         xr.clear();
      }
      else if(t[0] == "LP")
         c = parseLP(t);
      else if(t[0] == "XC")
         xc = dlist(t.size() > 1 ? t[1] : "");
      else if(t[0] == "XR")
         xr = dlist(t.size() > 1 ? t[1] : "");
      else if(t[0] == "OP")
         ops.push_back(t);
      else if(t[0] == "END")
      {
         if(idx < first)
            continue;

         printf("CASE %s %s %d %d\n", id.c_str(), mode.c_str(), scaler, persistent);
         fflush(stdout);

         if(handlers)
         {
            struct sigaction sa;
            memset(&sa, 0, sizeof(sa));
            sa.sa_handler = onsig;
            sa.sa_flags = SA_NODEFER;
            sigaction(SIGSEGV, &sa, nullptr);
            sigaction(SIGFPE, &sa, nullptr);
            sigaction(SIGBUS, &sa, nullptr);
            sigaction(SIGABRT, &sa, nullptr);
            sigaction(SIGALRM, &sa, nullptr);
            alarm(90);          // watchdog: no case needs more than a few seconds (TIMELIMIT is 10 s per solve)
         }

         if(!handlers || sigsetjmp(jb, 1) == 0)
         {
            activejb = handlers ? &jb : nullptr;
            try
            {
               if(mode == "BARE")
                  runBare(scaler, persistent != 0, c, xc, xr);
               else
                  runUser(scaler, persistent != 0, simp, c, ops);
            }
            catch(const std::exception& x)
            {
               printf("EXCEPTION %s\n", vf::hex(x.what()).c_str());
            }
         }
         else
         {
            // the heap may be corrupted: report, and let the driver restart the process behind this case
            printf("\nCRASH sig=%d\nENDCASE %s\n", (int)lastsig, id.c_str());
            fflush(stdout);
            _exit(3);
         }

         if(handlers)
            alarm(0);

         printf("ENDCASE %s\n", id.c_str());
         fflush(stdout);
      }
   }

   return 0;
}
