// C20 harness: the C interface (src/soplex_interface.cpp, included below so that it is compiled from the current
// tree) against the intended C++ calls on a mirror object.
//   C20 table                 dump enumerators as compiled + what the compiled C functions do with each code
//   C20 run <cases> <dir>     execute call sequences; one transcript line per call
// Every array handed to a C function has exactly the declared number of elements: in the normal build it ends at a
// PROT_NONE page (reads and writes past the end fault) and is preceded by a canary; in the sanitizer build it is a
// malloc block of exactly that size (ASan red zones on both sides).  Output arrays are pre-filled with a sentinel so
// that the set of elements written by the call is observable.
#include "soplex.h"
#include "soplex_interface.cpp"
#include "common.hpp"
#include <csignal>
#include <csetjmp>
#include <fstream>
#include <new>
#include <sys/mman.h>
#include <unistd.h>

#if defined(__SANITIZE_ADDRESS__)
#define VERIF_ASAN 1
#elif defined(__has_feature)
#if __has_feature(address_sanitizer)
#define VERIF_ASAN 1
#endif
#endif

using vf::dy;
using vf::undy;
typedef SoPlexBase<double> SP;

// ---------------------------------------------------------------------------------------------------------------
// new[] bookkeeping: requested size of the buffers the C functions return
// ---------------------------------------------------------------------------------------------------------------
struct ArrRec
{
   void* p;
   size_t n;
};
static bool g_track = false;
static ArrRec g_arr[256];
static int g_narr = 0;

void* operator new[](std::size_t n)
{
   void* p = malloc(n ? n : 1);

   if(p == nullptr)
      throw std::bad_alloc();

   if(g_track && g_narr < 256)
   {
      g_arr[g_narr].p = p;
      g_arr[g_narr].n = n;
      g_narr++;
   }

   return p;
}
void operator delete[](void* p) noexcept
{
   free(p);
}
void operator delete[](void* p, std::size_t) noexcept
{
   free(p);
}

static long arrSize(void* p)
{
   for(int i = g_narr - 1; i >= 0; i--)
      if(g_arr[i].p == p)
         return (long) g_arr[i].n;

   return -1;
}

// ---------------------------------------------------------------------------------------------------------------
// sanitizer report capture
// ---------------------------------------------------------------------------------------------------------------
static volatile int g_phaseForReport = 0;      // copy of g_phase (declared further down) at the time of a report
static int g_asanReports = 0;
static std::string g_asanWhat;
#ifdef VERIF_ASAN
extern "C" void __asan_set_error_report_callback(void (*cb)(const char*));
static void asanReport(const char* txt)
{
   g_asanReports++;
   std::string t(txt);
   std::string kind = "?", rw = "?", where = "?";
   size_t a = t.find("AddressSanitizer: ");

   if(a != std::string::npos)
   {
      size_t b = t.find_first_of(" \n", a + 18);
      kind = t.substr(a + 18, b - a - 18);
   }

   if(t.find("\nREAD of size") != std::string::npos)
      rw = "READ";
   else if(t.find("\nWRITE of size") != std::string::npos)
      rw = "WRITE";

   size_t f = t.find(" in SoPlex_");

   if(f != std::string::npos)
   {
      size_t e = t.find_first_of(" (\n", f + 4);
      where = t.substr(f + 4, e - f - 4);
   }

   if(g_asanWhat.empty())
      g_asanWhat = std::string(g_phaseForReport ? "X" : "") + kind + "/" + rw + "/" + where;
}
#endif

// ---------------------------------------------------------------------------------------------------------------
// guarded arrays
// ---------------------------------------------------------------------------------------------------------------
static const unsigned char CANARY = 0xC3;
static const size_t FRONT = 64;

template <class T>
struct Guarded
{
   T* a;
   size_t n;
   void* base;
   size_t maplen;

   explicit Guarded(size_t n_) : a(nullptr), n(n_), base(nullptr), maplen(0)
   {
#ifdef VERIF_ASAN
      base = malloc(n * sizeof(T));
      a = (T*) base;
#else
      size_t page = 4096;
      size_t bytes = n * sizeof(T);
      size_t pages = (bytes + FRONT + page - 1) / page + 1;
      maplen = (pages + 1) * page;
      base = mmap(nullptr, maplen, PROT_READ | PROT_WRITE, MAP_PRIVATE | MAP_ANONYMOUS, -1, 0);

      if(base == MAP_FAILED)
      {
         perror("mmap");
         exit(3);
      }

      char* guard = (char*) base + pages * page;
      mprotect(guard, page, PROT_NONE);
      a = (T*)(guard - bytes);
      memset((char*) a - FRONT, CANARY, FRONT);
#endif
   }
   ~Guarded()
   {
#ifdef VERIF_ASAN
      free(base);
#else
      munmap(base, maplen);
#endif
   }
   bool canaryIntact() const
   {
#ifndef VERIF_ASAN
      const unsigned char* c = (const unsigned char*) a - FRONT;

      for(size_t i = 0; i < FRONT; i++)
         if(c[i] != CANARY)
            return false;

#endif
      return true;
   }
private:
   Guarded(const Guarded&);
   Guarded& operator=(const Guarded&);
};

static const uint64_t SENT_D = 0x7ff8dead0000beefULL;
static const long SENT_L = 0x5a5a5a5a5a5a5a5aL;

static void fillD(Guarded<double>& g)
{
   for(size_t i = 0; i < g.n; i++)
      memcpy(&g.a[i], &SENT_D, 8);
}
static void fillL(Guarded<long>& g)
{
   for(size_t i = 0; i < g.n; i++)
      g.a[i] = SENT_L;
}
static bool isSentD(double d)
{
   uint64_t b;
   memcpy(&b, &d, 8);
   return b == SENT_D;
}
// indices written, as "lo-hi" (half open) when contiguous from lo, "none", or a list "i+j+k"
template <class F>
static std::string writtenSet(size_t n, F written)
{
   std::vector<size_t> w;

   for(size_t i = 0; i < n; i++)
      if(written(i))
         w.push_back(i);

   if(w.empty())
      return "none";

   bool contig = true;

   for(size_t k = 1; k < w.size(); k++)
      if(w[k] != w[k - 1] + 1)
         contig = false;

   std::ostringstream o;

   if(contig)
      o << w.front() << "-" << w.back() + 1;
   else
      for(size_t k = 0; k < w.size(); k++)
         o << (k ? "+" : "") << w[k];

   return o.str();
}

// ---------------------------------------------------------------------------------------------------------------
// observation of an object through the C++ getters
// ---------------------------------------------------------------------------------------------------------------
static std::ofstream devnull("/dev/null");
static void quiet(SP& s)
{
   for(int v = SPxOut::ERROR; v <= SPxOut::INFO3; v++)
      s.spxout.setStream((SPxOut::Verbosity) v, devnull);
}

static std::string rstr(const Rational& r)
{
   return r.str();
}

static std::string svecReal(const SVectorBase<double>& v)
{
   std::vector<std::pair<int, double>> es;

   for(int k = 0; k < v.size(); k++)
      es.push_back({v.index(k), v.value(k)});

   std::sort(es.begin(), es.end());
   std::ostringstream o;

   for(size_t k = 0; k < es.size(); k++)
      o << (k ? "," : "") << es[k].first << "~" << dy(es[k].second);

   return o.str();
}
static std::string svecRat(const SVectorBase<Rational>& v)
{
   std::vector<std::pair<int, std::string>> es;

   for(int k = 0; k < v.size(); k++)
      es.push_back({v.index(k), rstr(v.value(k))});

   std::sort(es.begin(), es.end());
   std::ostringstream o;

   for(size_t k = 0; k < es.size(); k++)
      o << (k ? "," : "") << es[k].first << "~" << es[k].second;

   return o.str();
}

static std::string fullDump(SP& s)
{
   std::ostringstream o;
   o << vf::dumpLPReal(s);
   o << " P:b=";

   for(int i = 0; i < SP::BOOLPARAM_COUNT; i++)
      o << (s.boolParam((SP::BoolParam) i) ? 1 : 0);

   o << ";i=";

   for(int i = 0; i < SP::INTPARAM_COUNT; i++)
      o << s.intParam((SP::IntParam) i) << ",";

   o << ";r=";

   for(int i = 0; i < SP::REALPARAM_COUNT; i++)
      o << dy(s.realParam((SP::RealParam) i)) << ",";

   int m = s.numRows(), n = s.numCols();
   o << " S:st=" << (int) s.status() << ";sol=" << s.hasSol() << ";bas=" << s.hasBasis() << ";it=" << s.numIterations();
   o << ";rs=";

   for(int i = 0; i < m; i++)
      o << (int) s.basisRowStatus(i);

   o << ";cs=";

   for(int j = 0; j < n; j++)
      o << (int) s.basisColStatus(j);

   if(s.hasSol())
   {
      VectorBase<double> x(n), y(m), r(n), sl(m);
      bool b1 = s.getPrimal(x), b2 = s.getDual(y), b3 = s.getRedCost(r), b4 = s.getSlacksReal(sl);
      o << ";ok=" << b1 << b2 << b3 << b4 << ";obj=" << dy(s.objValueReal()) << ";x=";

      for(int j = 0; j < x.dim(); j++)
         o << dy(x[j]) << ",";

      o << ";y=";

      for(int i = 0; i < y.dim(); i++)
         o << dy(y[i]) << ",";

      o << ";d=";

      for(int j = 0; j < r.dim(); j++)
         o << dy(r[j]) << ",";

      o << ";s=";

      for(int i = 0; i < sl.dim(); i++)
         o << dy(sl[i]) << ",";
   }

   if(s._rationalLP != nullptr)
   {
      int rm = s.numRowsRational(), rn = s.numColsRational();
      o << " Q:m=" << rm << ";n=" << rn << ";obj=";

      for(int j = 0; j < rn; j++)
         o << rstr(s.objRational(j)) << ",";

      o << ";lo=";

      for(int j = 0; j < rn; j++)
         o << rstr(s.lowerRational(j)) << ",";

      o << ";up=";

      for(int j = 0; j < rn; j++)
         o << rstr(s.upperRational(j)) << ",";

      o << ";lhs=";

      for(int i = 0; i < rm; i++)
         o << rstr(s.lhsRational(i)) << ",";

      o << ";rhs=";

      for(int i = 0; i < rm; i++)
         o << rstr(s.rhsRational(i)) << ",";

      o << ";A=";

      for(int i = 0; i < rm; i++)
         o << i << ":" << svecRat(s.rowVectorRational(i)) << "|";

      if(s.hasSol())
      {
         VectorRational xr(rn);
         bool b = s.getPrimalRational(xr);
         o << ";xr=" << b << ":";

         for(int j = 0; j < xr.dim(); j++)
            o << rstr(xr[j]) << ",";

         o << ";objr=" << rstr(s.objValueRational());
      }
   }

   return o.str();
}

static uint64_t fnv(const std::string& s)
{
   uint64_t h = 1469598103934665603ULL;

   for(unsigned char c : s)
   {
      h ^= c;
      h *= 1099511628211ULL;
   }

   return h;
}
static std::string hx(uint64_t h)
{
   char b[32];
   snprintf(b, sizeof(b), "%016llx", (unsigned long long) h);
   return b;
}
static std::string slurp(const std::string& p)
{
   std::ifstream f(p, std::ios::binary);
   std::ostringstream o;
   o << f.rdbuf();
   return o.str();
}

// ---------------------------------------------------------------------------------------------------------------
// table
// ---------------------------------------------------------------------------------------------------------------
#define C20_BOOLS X(LIFTING) X(EQTRANS) X(TESTDUALINF) X(RATFAC) X(ACCEPTCYCLING) X(RATREC) X(POWERSCALING) X(RATFACJUMP) \
   X(ROWBOUNDFLIPS) X(PERSISTENTSCALING) X(FULLPERTURBATION) X(ENSURERAY) X(FORCEBASIC) X(SIMPLIFIER_SINGLETONCOLS) \
   X(SIMPLIFIER_CONSTRAINTPROPAGATION) X(SIMPLIFIER_PARALLELROWDETECTION) X(SIMPLIFIER_PARALLELCOLDETECTION) \
   X(SIMPLIFIER_SINGLETONSTUFFING) X(SIMPLIFIER_DUALFIX) X(SIMPLIFIER_FIXCONTINUOUS) X(SIMPLIFIER_DOMINATEDCOLS) \
   X(ITERATIVE_REFINEMENT) X(ADAPT_TOLS_TO_MULTIPRECISION) X(PRECISION_BOOSTING) X(BOOSTED_WARM_START) X(RECOVERY_MECHANISM) \
   X(BOOLPARAM_COUNT)
#define C20_INTS X(OBJSENSE) X(REPRESENTATION) X(ALGORITHM) X(FACTOR_UPDATE_TYPE) X(FACTOR_UPDATE_MAX) X(ITERLIMIT) X(REFLIMIT) \
   X(STALLREFLIMIT) X(DISPLAYFREQ) X(VERBOSITY) X(SIMPLIFIER) X(SCALER) X(STARTER) X(PRICER) X(RATIOTESTER) X(SYNCMODE) \
   X(READMODE) X(SOLVEMODE) X(CHECKMODE) X(TIMER) X(HYPER_PRICING) X(RATFAC_MINSTALLS) X(LEASTSQ_MAXROUNDS) \
   X(SOLUTION_POLISHING) X(PRINTBASISMETRIC) X(STATTIMER) X(MULTIPRECISION_LIMIT) X(STORE_BASIS_SIMPLEX_FREQ) X(INTPARAM_COUNT)
#define C20_REALS X(FEASTOL) X(OPTTOL) X(EPSILON_ZERO) X(EPSILON_FACTORIZATION) X(EPSILON_UPDATE) X(EPSILON_PIVOT) X(INFTY) \
   X(TIMELIMIT) X(OBJLIMIT_LOWER) X(OBJLIMIT_UPPER) X(FPFEASTOL) X(FPOPTTOL) X(MAXSCALEINCR) X(LIFTMINVAL) X(LIFTMAXVAL) \
   X(SPARSITY_THRESHOLD) X(REPRESENTATION_SWITCH) X(RATREC_FREQ) X(MINRED) X(REFAC_BASIS_NNZ) X(REFAC_UPDATE_FILL) \
   X(REFAC_MEM_FACTOR) X(LEASTSQ_ACRCY) X(OBJ_OFFSET) X(MIN_MARKOWITZ) X(SIMPLIFIER_MODIFYROWFAC) X(PRECISION_BOOSTING_FACTOR) \
   X(REALPARAM_COUNT)
#define C20_VALUES X(OBJSENSE_MINIMIZE) X(OBJSENSE_MAXIMIZE) X(SYNCMODE_ONLYREAL) X(SYNCMODE_AUTO) X(SYNCMODE_MANUAL) \
   X(READMODE_REAL) X(READMODE_RATIONAL) X(SOLVEMODE_REAL) X(SOLVEMODE_AUTO) X(SOLVEMODE_RATIONAL) X(CHECKMODE_REAL) \
   X(CHECKMODE_AUTO) X(CHECKMODE_RATIONAL)
#define C20_STATUS X(ERROR) X(NO_RATIOTESTER) X(NO_PRICER) X(NO_SOLVER) X(NOT_INIT) X(ABORT_CYCLING) X(ABORT_TIME) X(ABORT_ITER) \
   X(ABORT_VALUE) X(SINGULAR) X(NO_PROBLEM) X(REGULAR) X(RUNNING) X(UNKNOWN) X(OPTIMAL) X(UNBOUNDED) X(INFEASIBLE) X(INForUNBD) \
   X(OPTIMAL_UNSCALED_VIOLATIONS)
#define C20_VARSTATUS X(ON_UPPER) X(ON_LOWER) X(FIXED) X(ZERO) X(BASIC) X(UNDEFINED)

static int cmdTable()
{
   typedef SPxSolverBase<double> SV;
#define X(n) printf("BP %s %d\n", #n, (int) SP::n);
   C20_BOOLS
#undef X
#define X(n) printf("IP %s %d\n", #n, (int) SP::n);
   C20_INTS
#undef X
#define X(n) printf("RP %s %d\n", #n, (int) SP::n);
   C20_REALS
#undef X
#define X(n) printf("IV %s %d\n", #n, (int) SP::n);
   C20_VALUES
#undef X
#define X(n) printf("ST %s %d\n", #n, (int) SV::n);
   C20_STATUS
#undef X
#define X(n) printf("VS %s %d\n", #n, (int) SV::n);
   C20_VARSTATUS
#undef X

   // --- what the compiled C functions do with every code ---
   for(int code = 0; code < SP::INTPARAM_COUNT; code++)
   {
      int def = SP::Settings::intParam.defaultValue[code];
      int lo = SP::Settings::intParam.lower[code];
      int cand[] = {lo, lo + 1, lo + 2, lo + 3, def + 1, def - 1, 0, 1, 2, 3, 7};
      int v = def;
      bool found = false;

      for(int k = 0; k < 11 && !found; k++)
      {
         if(cand[k] == def)
            continue;

         SP t;
         quiet(t);

         if(t.setIntParam((SP::IntParam) code, cand[k]))
         {
            v = cand[k];
            found = true;
         }
      }

      void* c = SoPlex_create();
      SP* cs = (SP*) c;
      quiet(*cs);
      std::vector<int> before;

      for(int k = 0; k < SP::INTPARAM_COUNT; k++)
         before.push_back(cs->intParam((SP::IntParam) k));

      SoPlex_setIntParam(c, code, v);
      int hit = -1;

      if(!found)
         hit = code;      // no other admissible value exists: nothing to distinguish
      else if(cs->intParam((SP::IntParam) code) == v)
         hit = code;
      else
         for(int k = 0; k < SP::INTPARAM_COUNT; k++)
            if(cs->intParam((SP::IntParam) k) != before[k])
            {
               hit = k;
               break;
            }

      printf("CIP %d %d\n", code, hit);
      int g = SoPlex_getIntParam(c, code);
      int ghit = -1;

      if(g == cs->intParam((SP::IntParam) code) && (!found || g == v))
         ghit = code;

      printf("CGI %d %d\n", code, ghit);
      SoPlex_free(c);
   }

   for(int code = 0; code < SP::BOOLPARAM_COUNT; code++)
   {
      bool def = SP::Settings::boolParam.defaultValue[code];
      SP t;
      quiet(t);
      bool settable = t.setBoolParam((SP::BoolParam) code, !def);
      void* c = SoPlex_create();
      SP* cs = (SP*) c;
      quiet(*cs);
      std::vector<bool> before;

      for(int k = 0; k < SP::BOOLPARAM_COUNT; k++)
         before.push_back(cs->boolParam((SP::BoolParam) k));

      SoPlex_setBoolParam(c, code, def ? 0 : 1);
      int hit = -1;

      if(!settable || cs->boolParam((SP::BoolParam) code) == !def)
         hit = code;
      else
         for(int k = 0; k < SP::BOOLPARAM_COUNT; k++)
            if(cs->boolParam((SP::BoolParam) k) != before[k])
            {
               hit = k;
               break;
            }

      printf("CBP %d %d\n", code, hit);
      SoPlex_free(c);
   }

   for(int code = 0; code < SP::REALPARAM_COUNT; code++)
   {
      double def = SP::Settings::realParam.defaultValue[code];
      double lo = SP::Settings::realParam.lower[code], up = SP::Settings::realParam.upper[code];
      double cand[] = {def * 2, def / 2, def + 1, lo, up, 0.5, 1.0, 2.0};
      double v = def;
      bool found = false;

      for(int k = 0; k < 8 && !found; k++)
      {
         if(cand[k] == def || cand[k] != cand[k])
            continue;

         SP t;
         quiet(t);

         if(t.setRealParam((SP::RealParam) code, cand[k]))
         {
            v = cand[k];
            found = true;
         }
      }

      void* c = SoPlex_create();
      SP* cs = (SP*) c;
      quiet(*cs);
      std::vector<double> before;

      for(int k = 0; k < SP::REALPARAM_COUNT; k++)
         before.push_back(cs->realParam((SP::RealParam) k));

      SoPlex_setRealParam(c, code, v);
      int hit = -1;

      if(!found || cs->realParam((SP::RealParam) code) == v)
         hit = code;
      else
         for(int k = 0; k < SP::REALPARAM_COUNT; k++)
            if(cs->realParam((SP::RealParam) k) != before[k])
            {
               hit = k;
               break;
            }

      printf("CRP %d %d\n", code, hit);
      SoPlex_free(c);
   }

   {
      void* c = SoPlex_create();
      SP* cs = (SP*) c;
      quiet(*cs);
#define X(n) cs->_status = SV::n; printf("CST %d %d\n", (int) SV::n, SoPlex_getStatus(c));
      C20_STATUS
#undef X
      double e[] = {1.0};
      SoPlex_addColReal(c, e, 1, 1, 0.0, 0.0, 1.0);
      bool usable = cs->numRows() == 1 && cs->numCols() == 1;
      bool wasLoaded = cs->_isRealLPLoaded;
      cs->_isRealLPLoaded = false;      // the basis-status getters then answer from the stored status arrays
      cs->_hasBasis = true;
      cs->_basisStatusRows.reSize(1);
      cs->_basisStatusCols.reSize(1);
#define X(n) cs->_basisStatusCols[0] = SV::n; cs->_basisStatusRows[0] = SV::n; \
   printf("CVS col %d %d\n", (int) SV::n, usable ? SoPlex_basisColStatus(c, 0) : -1); \
   printf("CVS row %d %d\n", (int) SV::n, usable ? SoPlex_basisRowStatus(c, 0) : -1);
      C20_VARSTATUS
#undef X
      cs->_hasBasis = false;
      cs->_isRealLPLoaded = wasLoaded;
      SoPlex_free(c);
   }
   {
      void* c = SoPlex_create();
      SP* cs = (SP*) c;
      quiet(*cs);
      SoPlex_setRational(c);
      printf("CSR READMODE_RATIONAL %d\n", cs->intParam(SP::READMODE));
      printf("CSR SOLVEMODE_RATIONAL %d\n", cs->intParam(SP::SOLVEMODE));
      printf("CSR CHECKMODE_RATIONAL %d\n", cs->intParam(SP::CHECKMODE));
      printf("CSR SYNCMODE_AUTO %d\n", cs->intParam(SP::SYNCMODE));
      printf("CSR FEASTOL %s\n", dy(cs->realParam(SP::FEASTOL)).c_str());
      printf("CSR OPTTOL %s\n", dy(cs->realParam(SP::OPTTOL)).c_str());
      SoPlex_free(c);
   }

   // ranges (for the generator)
   for(int i = 0; i < SP::INTPARAM_COUNT; i++)
      printf("IR %d %s %d %d %d\n", i, SP::Settings::intParam.name[i].c_str(), SP::Settings::intParam.defaultValue[i],
             SP::Settings::intParam.lower[i], SP::Settings::intParam.upper[i]);

   for(int i = 0; i < SP::REALPARAM_COUNT; i++)
      printf("RR %d %s %s %s %s\n", i, SP::Settings::realParam.name[i].c_str(), dy(SP::Settings::realParam.defaultValue[i]).c_str(),
             dy(SP::Settings::realParam.lower[i]).c_str(), dy(SP::Settings::realParam.upper[i]).c_str());

   for(int i = 0; i < SP::BOOLPARAM_COUNT; i++)
      printf("BR %d %s %d\n", i, SP::Settings::boolParam.name[i].c_str(), (int) SP::Settings::boolParam.defaultValue[i]);

   return 0;
}

// ---------------------------------------------------------------------------------------------------------------
// run
// ---------------------------------------------------------------------------------------------------------------
static const unsigned WATCHDOG_S = 30;
static sigjmp_buf g_jb;
static volatile int g_armed = 0;
static volatile int g_phase = 0;      // 1 while a C++ member runs on the mirror object on its own (forwarders, observation)
static void onSignal(int sig)
{
   if(g_armed)
   {
      g_armed = 0;
      siglongjmp(g_jb, sig);
   }

   signal(sig, SIG_DFL);
   raise(sig);
}

struct Ctx
{
   void* c;
   SP* cs;
   SP* m;
   std::string dir;
};

static long symval(const std::string& t, Ctx& x)
{
   // "@n", "@m", "@rn", "@rm", "@pn" (+k / -k) or a literal
   if(t.empty() || t[0] != '@')
      return atol(t.c_str());

   size_t p = t.find_first_of("+-", 1);
   std::string base = t.substr(1, p == std::string::npos ? std::string::npos : p - 1);
   long off = p == std::string::npos ? 0 : atol(t.substr(p).c_str());
   long v = 0;

   if(base == "n")
      v = x.cs->numCols();
   else if(base == "m")
      v = x.cs->numRows();
   else if(base == "rn")
      v = x.cs->_rationalLP ? x.cs->numColsRational() : 0;
   else if(base == "rm")
      v = x.cs->_rationalLP ? x.cs->numRowsRational() : 0;
   else if(base == "pn")      // dimension of the rational primal vector if there is one, else of the real one
      v = x.cs->_rationalLP ? x.cs->numColsRational() : x.cs->numCols();

   v += off;
   return v < 0 ? 0 : v;
}

// pools separated by "|"
static std::vector<std::vector<std::string>> pools(const std::vector<std::string>& t, size_t from)
{
   std::vector<std::vector<std::string>> ps;

   for(size_t i = from; i < t.size(); i++)
   {
      if(t[i] == "|")
         ps.push_back(std::vector<std::string>());
      else if(!ps.empty())
         ps.back().push_back(t[i]);
   }

   return ps;
}
static std::string pick(const std::vector<std::string>& p, size_t i)
{
   return p.empty() ? std::string("0:0") : p[i % p.size()];
}
static std::string pickL(const std::vector<std::string>& p, size_t i)
{
   return p.empty() ? std::string("1") : p[i % p.size()];
}
static Rational ratOf(long n, long d)
{
   // what a C++ user writes for the value n/d
   Rational a(n), b(d);
   return a / b;
}

// While the real LP is stored scaled, SPxLPBase::doAddCol/doAddRow(scale = true) read the scaling exponents of the rows /
// columns they are about to create (uninitialised; C++ side, not a C-interface matter): two objects then differ by
// garbage.  New vectors are therefore kept inside the current dimension in that state.
static long clampScaled(long size, bool col, Ctx& x)
{
   if(!x.cs->_realLP->isScaled())
      return size;

   long lim = col ? x.cs->numRows() : x.cs->numCols();

   if(x.cs->_rationalLP != nullptr)
   {
      long rl = col ? x.cs->numRowsRational() : x.cs->numColsRational();

      if(rl < lim)
         lim = rl;
   }

   return size > lim ? lim : size;
}

struct Line
{
   std::string args, cret, xret, obs, wr, note;
   bool skip, threw;
   Line() : cret("-"), xret("-"), obs("-"), wr("-"), skip(false), threw(false) {}
};

// runs f; returns "" or the description of the exception it let escape (blanks replaced)
template <class F>
static std::string guarded(F f)
{
   std::string e;

   try
   {
      f();
   }
   catch(const SPxException& x)
   {
      e = std::string("SPXEXC:") + x.what();
   }
   catch(const std::exception& x)
   {
      e = std::string("EXC:") + x.what();
   }
   catch(...)
   {
      e = "EXC:?";
   }

   for(char& ch : e)
      if(ch == ' ')
         ch = '_';

   return e;
}
// pure forwarders (no converted arguments): an exception of the C++ member passes through the C function unchanged;
// both sides are run and compared, the case ends afterwards
template <class FC, class FX>
static void forward(Line& L, FC fc, FX fx)
{
   // mirror first: if the C++ member itself faults, that is recorded as such and the C function is not called
   g_phase = 1;
   g_phaseForReport = 1;
   std::string xe = guarded(fx);
   g_phase = 0;
   g_phaseForReport = 0;
   std::string ce = guarded(fc);

   if(!ce.empty())
      L.cret = ce;

   if(!xe.empty())
      L.xret = xe;

   L.threw = !ce.empty() || !xe.empty();
}

static std::string joinD(const Guarded<double>& g)
{
   std::ostringstream o;

   for(size_t i = 0; i < g.n; i++)
      o << (i ? "," : "") << dy(g.a[i]);

   return o.str();
}
static std::string joinL(const Guarded<long>& g)
{
   std::ostringstream o;

   for(size_t i = 0; i < g.n; i++)
      o << (i ? "," : "") << g.a[i];

   return o.str();
}
static std::string outD(const Guarded<double>& g)
{
   std::ostringstream o;

   for(size_t i = 0; i < g.n; i++)
      o << (i ? "," : "") << (isSentD(g.a[i]) ? std::string("_") : dy(g.a[i]));

   return o.str();
}
static std::string vecD(const double* a, int n)
{
   std::ostringstream o;

   for(int i = 0; i < n; i++)
      o << (i ? "," : "") << dy(a[i]);

   return o.str();
}

static std::string retString(char* s)
{
   // requested size of the returned new[] block, whether a terminator lies inside it, and the bytes before it
   long L = arrSize((void*) s);
   std::ostringstream o;

   if(L < 0)
   {
      o << "buflen=?";
      return o.str();
   }

   size_t len = 0;

   while(len < (size_t) L && s[len] != 0)
      len++;

   o << "buflen=" << L << ",term=" << (len < (size_t) L ? 1 : 0) << ",text=" << vf::hex(std::string(s, len));
   return o.str();
}
static std::string expString(const std::string& t)
{
   std::ostringstream o;
   o << "buflen=" << t.size() + 1 << ",term=1,text=" << vf::hex(t);
   return o.str();
}

static bool needIdx(long dimn, Line& L)
{
   if(dimn <= 0)
   {
      L.skip = true;
      L.note = "skip=empty";
      return false;
   }

   return true;
}

// executes one call on both objects
static void doOp(const std::vector<std::string>& t, Ctx& x, Line& L)
{
   const std::string& op = t[0];
   void* c = x.c;
   SP* cs = x.cs;
   SP* m = x.m;
   std::ostringstream A;

   if(op == "clearLPReal")
   {
      SoPlex_clearLPReal(c);
      m->clearLPReal();
   }
   else if(op == "numRows")
   {
      L.cret = std::to_string(SoPlex_numRows(c));
      L.xret = std::to_string(m->numRows());
   }
   else if(op == "numCols")
   {
      L.cret = std::to_string(SoPlex_numCols(c));
      L.xret = std::to_string(m->numCols());
   }
   else if(op == "setRational")
   {
      SoPlex_setRational(c);
      m->setIntParam(SP::READMODE, SP::READMODE_RATIONAL);
      m->setIntParam(SP::SOLVEMODE, SP::SOLVEMODE_RATIONAL);
      m->setIntParam(SP::CHECKMODE, SP::CHECKMODE_RATIONAL);
      m->setIntParam(SP::SYNCMODE, SP::SYNCMODE_AUTO);
      m->setRealParam(SP::FEASTOL, 0.0);
      m->setRealParam(SP::OPTTOL, 0.0);
   }
   else if(op == "setBoolParam")
   {
      int code = atoi(t[1].c_str()), v = atoi(t[2].c_str());
      A << code << "," << v;
      SoPlex_setBoolParam(c, code, v);
      m->setBoolParam((SP::BoolParam) code, v != 0);
   }
   else if(op == "setIntParam")
   {
      int code = atoi(t[1].c_str()), v = atoi(t[2].c_str());
      A << code << "," << v;
      SoPlex_setIntParam(c, code, v);
      m->setIntParam((SP::IntParam) code, v);
   }
   else if(op == "setRealParam")
   {
      int code = atoi(t[1].c_str());
      double v = undy(t[2]);
      A << code << "," << t[2];
      SoPlex_setRealParam(c, code, v);
      m->setRealParam((SP::RealParam) code, v);
   }
   else if(op == "getIntParam")
   {
      int code = atoi(t[1].c_str());
      A << code;
      L.cret = std::to_string(SoPlex_getIntParam(c, code));
      L.xret = std::to_string(m->intParam((SP::IntParam) code));
   }
   else if(op == "addColReal" || op == "addRowReal")
   {
      bool col = op == "addColReal";
      long size = symval(t[1], x);
      size = clampScaled(size, col, x);
      int nnz = atoi(t[2].c_str());
      auto ps = pools(t, 3);
      Guarded<double> e(size);

      for(long i = 0; i < size; i++)
         e.a[i] = undy(pick(ps.at(0), i));

      DSVectorBase<double> v;

      for(long i = 0; i < size; i++)
         if(e.a[i] != 0.0)
            v.add((int) i, e.a[i]);

      if(col)
      {
         double obj = undy(t[3]), lb = undy(t[4]), ub = undy(t[5]);
         A << size << "," << nnz << "," << t[3] << "," << t[4] << "," << t[5] << ";" << joinD(e);
         SoPlex_addColReal(c, e.a, (int) size, nnz, obj, lb, ub);
         m->addColReal(LPColBase<double>(obj, v, ub, lb));
         int j = cs->numCols() - 1;
         DSVectorBase<double> cv;
         cs->getColVectorReal(j, cv);
         L.obs = "obj=" + dy(cs->objReal(j)) + ";lo=" + dy(cs->lowerReal(j)) + ";up=" + dy(cs->upperReal(j)) + ";vec=" + svecReal(cv);
      }
      else
      {
         double lb = undy(t[3]), ub = undy(t[4]);
         A << size << "," << nnz << "," << t[3] << "," << t[4] << ";" << joinD(e);
         SoPlex_addRowReal(c, e.a, (int) size, nnz, lb, ub);
         m->addRowReal(LPRowBase<double>(lb, v, ub));
         int i = cs->numRows() - 1;
         DSVectorBase<double> rv;
         cs->getRowVectorReal(i, rv);
         L.obs = "lhs=" + dy(cs->lhsReal(i)) + ";rhs=" + dy(cs->rhsReal(i)) + ";vec=" + svecReal(rv);
      }

      if(!e.canaryIntact())
         L.note += " canary=arg0";
   }
   else if(op == "addColRational" || op == "addRowRational")
   {
      bool col = op == "addColRational";
      long size = symval(t[1], x);
      size = clampScaled(size, col, x);
      int nnz = atoi(t[2].c_str());
      int nb = col ? 6 : 4;
      long b[6];

      for(int k = 0; k < nb; k++)
         b[k] = atol(t[3 + k].c_str());

      auto ps = pools(t, 3 + nb);
      Guarded<long> nu(size), de(size);

      for(long i = 0; i < size; i++)
      {
         nu.a[i] = atol(pickL(ps.at(0), i).c_str());
         de.a[i] = atol(pickL(ps.at(1), i).c_str());
      }

      A << size << "," << nnz;

      for(int k = 0; k < nb; k++)
         A << "," << b[k];

      A << ";" << joinL(nu) << ";" << joinL(de);
      DSVectorBase<Rational> v;

      for(long i = 0; i < size; i++)
         if(nu.a[i] != 0)
            v.add((int) i, ratOf(nu.a[i], de.a[i]));

      bool active = cs->intParam(SP::SYNCMODE) != SP::SYNCMODE_ONLYREAL;

      if(col)
      {
         SoPlex_addColRational(c, nu.a, de.a, (int) size, nnz, b[0], b[1], b[2], b[3], b[4], b[5]);
         m->addColRational(LPColBase<Rational>(ratOf(b[0], b[1]), v, ratOf(b[4], b[5]), ratOf(b[2], b[3])));

         if(active)
         {
            int j = cs->numColsRational() - 1;
            L.obs = "obj=" + rstr(cs->objRational(j)) + ";lo=" + rstr(cs->lowerRational(j)) + ";up=" + rstr(cs->upperRational(j))
                    + ";vec=" + svecRat(cs->colVectorRational(j));
         }
         else
            L.obs = "inactive";
      }
      else
      {
         SoPlex_addRowRational(c, nu.a, de.a, (int) size, nnz, b[0], b[1], b[2], b[3]);
         m->addRowRational(LPRowBase<Rational>(ratOf(b[0], b[1]), v, ratOf(b[2], b[3])));

         if(active)
         {
            int i = cs->numRowsRational() - 1;
            L.obs = "lhs=" + rstr(cs->lhsRational(i)) + ";rhs=" + rstr(cs->rhsRational(i)) + ";vec=" + svecRat(cs->rowVectorRational(i));
         }
         else
            L.obs = "inactive";
      }

      if(!nu.canaryIntact() || !de.canaryIntact())
         L.note += " canary=arg";
   }
   else if(op == "removeColReal" || op == "removeRowReal")
   {
      bool col = op == "removeColReal";
      long dimn = col ? cs->numCols() : cs->numRows();

      if(!needIdx(dimn, L))
         return;

      int i = (int)(atol(t[1].c_str()) % dimn);
      A << i;

      if(col)
      {
         SoPlex_removeColReal(c, i);
         m->removeColReal(i);
      }
      else
      {
         SoPlex_removeRowReal(c, i);
         m->removeRowReal(i);
      }
   }
   else if(op == "getPrimalReal" || op == "getDualReal" || op == "getRedCostReal")
   {
      long dim = symval(t[1], x);
      A << dim;
      Guarded<double> out(dim);
      fillD(out);
      // the mirror's array gets slack: what the C++ member stores is observed, not assumed
      std::vector<double> mo(dim + 64);

      for(size_t i = 0; i < mo.size(); i++)
         memcpy(&mo[i], &SENT_D, 8);

      // mirror first: if the C call faults on the guard page the C++ observation is already recorded
      if(op == "getPrimalReal")
         m->getPrimalReal(mo.data(), (int) dim);
      else if(op == "getDualReal")
         m->getDualReal(mo.data(), (int) dim);
      else
         m->getRedCostReal(mo.data(), (int) dim);

      size_t mk = 0;

      while(mk < mo.size() && !isSentD(mo[mk]))
         mk++;

      L.xret = vecD(mo.data(), (int) mk);
      L.args = A.str();

      if(op == "getPrimalReal")
         SoPlex_getPrimalReal(c, out.a, (int) dim);
      else if(op == "getDualReal")
         SoPlex_getDualReal(c, out.a, (int) dim);
      else
         SoPlex_getRedCostReal(c, out.a, (int) dim);

      size_t k = 0;

      while(k < out.n && !isSentD(out.a[k]))
         k++;

      L.cret = vecD(out.a, (int) k);
      L.wr = "0:" + writtenSet(out.n, [&](size_t i)
      {
         return !isSentD(out.a[i]);
      });

      if(!out.canaryIntact())
         L.note += " canary=arg0";
   }
   else if(op == "getLowerReal" || op == "getUpperReal" || op == "getObjReal")
   {
      long dim = symval(t[1], x);
      A << dim;
      Guarded<double> out(dim);
      fillD(out);
      VectorBase<double> mv((int) dim);

      if(op == "getLowerReal")
      {
         SoPlex_getLowerReal(c, out.a, (int) dim);
         m->getLowerReal(mv);
      }
      else if(op == "getUpperReal")
      {
         SoPlex_getUpperReal(c, out.a, (int) dim);
         m->getUpperReal(mv);
      }
      else
      {
         SoPlex_getObjReal(c, out.a, (int) dim);
         m->getObjReal(mv);
      }

      // what the C++ getter delivers: the LP's numCols values (beyond them a vector holds nothing that belongs to the LP)
      int k = mv.dim() < (int) dim ? mv.dim() : (int) dim;

      if(m->numCols() < k)
         k = m->numCols();

      L.xret = vecD(mv.get_const_ptr(), k) + (k < (int) dim ? ",beyond-vector:" + std::to_string(k) : "");
      L.cret = outD(out);
      L.wr = "0:" + writtenSet(out.n, [&](size_t i)
      {
         return !isSentD(out.a[i]);
      });

      if(!out.canaryIntact())
         L.note += " canary=arg0";
   }
   else if(op == "getPrimalRationalString")
   {
      long dim = symval(t[1], x);
      A << dim;
      g_track = true;
      g_narr = 0;
      char* s = SoPlex_getPrimalRationalString(c, (int) dim);
      g_track = false;
      L.cret = retString(s);
      delete[] s;
      VectorRational pv((int) dim);
      m->getPrimalRational(pv);
      std::string e;

      for(int i = 0; i < (int) dim && i < pv.dim(); i++)
         e += pv[i].str() + " ";

      L.xret = expString(e) + (pv.dim() < (int) dim ? ",beyond-vector:" + std::to_string(pv.dim()) : "");
   }
   else if(op == "objValueRationalString")
   {
      g_track = true;
      g_narr = 0;
      char* s = SoPlex_objValueRationalString(c);
      g_track = false;
      L.cret = retString(s);
      delete[] s;
      L.xret = expString(m->objValueRational().str());
   }
   else if(op == "optimize")
   {
      forward(L, [&]() { L.cret = std::to_string(SoPlex_optimize(c)); }, [&]() { L.xret = std::to_string((int) m->optimize()); });
   }
   else if(op == "getStatus")
   {
      L.cret = std::to_string(SoPlex_getStatus(c));
      L.xret = std::to_string((int) m->status());
   }
   else if(op == "getSolvingTime")
   {
      // wall/cpu time differs between two objects: compare with the C++ getter on the same object
      L.cret = dy(SoPlex_getSolvingTime(c));
      L.xret = dy(cs->solveTime());
      m->solveTime();
   }
   else if(op == "getNumIterations")
   {
      L.cret = std::to_string(SoPlex_getNumIterations(c));
      L.xret = std::to_string(m->numIterations());
   }
   else if(op == "objValueReal")
   {
      L.cret = dy(SoPlex_objValueReal(c));
      L.xret = dy(m->objValueReal());
   }
   else if(op == "changeObjReal" || op == "changeLhsReal" || op == "changeRhsReal" || op == "changeLowerReal"
           || op == "changeUpperReal")
   {
      long dim = symval(t[1], x);
      auto ps = pools(t, 2);
      Guarded<double> a(dim);

      for(long i = 0; i < dim; i++)
         a.a[i] = undy(pick(ps.at(0), i));

      A << dim << ";" << joinD(a);
      VectorBase<double> v((int) dim);

      for(long i = 0; i < dim; i++)
         v[(int) i] = a.a[i];

      std::ostringstream o;

      if(op == "changeObjReal")
      {
         SoPlex_changeObjReal(c, a.a, (int) dim);
         m->changeObjReal(v);

         for(int j = 0; j < cs->numCols(); j++)
            o << (j ? "," : "") << dy(cs->objReal(j));
      }
      else if(op == "changeLhsReal")
      {
         SoPlex_changeLhsReal(c, a.a, (int) dim);
         m->changeLhsReal(v);

         for(int i = 0; i < cs->numRows(); i++)
            o << (i ? "," : "") << dy(cs->lhsReal(i));
      }
      else if(op == "changeRhsReal")
      {
         SoPlex_changeRhsReal(c, a.a, (int) dim);
         m->changeRhsReal(v);

         for(int i = 0; i < cs->numRows(); i++)
            o << (i ? "," : "") << dy(cs->rhsReal(i));
      }
      else if(op == "changeLowerReal")
      {
         SoPlex_changeLowerReal(c, a.a, (int) dim);
         m->changeLowerReal(v);

         for(int j = 0; j < cs->numCols(); j++)
            o << (j ? "," : "") << dy(cs->lowerReal(j));
      }
      else
      {
         SoPlex_changeUpperReal(c, a.a, (int) dim);
         m->changeUpperReal(v);

         for(int j = 0; j < cs->numCols(); j++)
            o << (j ? "," : "") << dy(cs->upperReal(j));
      }

      L.obs = "v=" + o.str();

      if(!a.canaryIntact())
         L.note += " canary=arg0";
   }
   else if(op == "changeRangeReal" || op == "changeBoundsReal")
   {
      long dim = symval(t[1], x);
      auto ps = pools(t, 2);
      Guarded<double> a(dim), b(dim);

      for(long i = 0; i < dim; i++)
      {
         a.a[i] = undy(pick(ps.at(0), i));
         b.a[i] = undy(pick(ps.at(1), i));
      }

      A << dim << ";" << joinD(a) << ";" << joinD(b);
      VectorBase<double> va((int) dim), vb((int) dim);

      for(long i = 0; i < dim; i++)
      {
         va[(int) i] = a.a[i];
         vb[(int) i] = b.a[i];
      }

      std::ostringstream o1, o2;

      if(op == "changeRangeReal")
      {
         SoPlex_changeRangeReal(c, a.a, b.a, (int) dim);
         m->changeRangeReal(va, vb);

         for(int i = 0; i < cs->numRows(); i++)
         {
            o1 << (i ? "," : "") << dy(cs->lhsReal(i));
            o2 << (i ? "," : "") << dy(cs->rhsReal(i));
         }
      }
      else
      {
         SoPlex_changeBoundsReal(c, a.a, b.a, (int) dim);
         m->changeBoundsReal(va, vb);

         for(int j = 0; j < cs->numCols(); j++)
         {
            o1 << (j ? "," : "") << dy(cs->lowerReal(j));
            o2 << (j ? "," : "") << dy(cs->upperReal(j));
         }
      }

      L.obs = "v=" + o1.str() + ";w=" + o2.str();

      if(!a.canaryIntact() || !b.canaryIntact())
         L.note += " canary=arg";
   }
   else if(op == "changeObjRational" || op == "changeLhsRational" || op == "changeRhsRational")
   {
      long dim = symval(t[1], x);
      auto ps = pools(t, 2);
      Guarded<long> nu(dim), de(dim);

      for(long i = 0; i < dim; i++)
      {
         nu.a[i] = atol(pickL(ps.at(0), i).c_str());
         de.a[i] = atol(pickL(ps.at(1), i).c_str());
      }

      A << dim << ";" << joinL(nu) << ";" << joinL(de);
      VectorRational v((int) dim);

      for(long i = 0; i < dim; i++)
         v[(int) i] = ratOf(nu.a[i], de.a[i]);

      bool active = cs->intParam(SP::SYNCMODE) != SP::SYNCMODE_ONLYREAL;
      std::ostringstream o;

      if(op == "changeObjRational")
      {
         SoPlex_changeObjRational(c, nu.a, de.a, (int) dim);
         m->changeObjRational(v);

         if(active)
            for(int j = 0; j < cs->numColsRational(); j++)
               o << (j ? "," : "") << rstr(cs->objRational(j));
      }
      else if(op == "changeLhsRational")
      {
         SoPlex_changeLhsRational(c, nu.a, de.a, (int) dim);
         m->changeLhsRational(v);

         if(active)
            for(int i = 0; i < cs->numRowsRational(); i++)
               o << (i ? "," : "") << rstr(cs->lhsRational(i));
      }
      else
      {
         SoPlex_changeRhsRational(c, nu.a, de.a, (int) dim);
         m->changeRhsRational(v);

         if(active)
            for(int i = 0; i < cs->numRowsRational(); i++)
               o << (i ? "," : "") << rstr(cs->rhsRational(i));
      }

      L.obs = active ? "v=" + o.str() : "inactive";

      if(!nu.canaryIntact() || !de.canaryIntact())
         L.note += " canary=arg";
   }
   else if(op == "changeRowLhsReal" || op == "changeRowRhsReal" || op == "changeRowRangeReal" || op == "changeVarBoundsReal"
           || op == "changeVarLowerReal" || op == "changeVarUpperReal")
   {
      bool row = op.find("Row") != std::string::npos;
      long dimn = row ? cs->numRows() : cs->numCols();

      if(!needIdx(dimn, L))
         return;

      int i = (int)(atol(t[1].c_str()) % dimn);
      double a = undy(t[2]);
      double b = t.size() > 3 ? undy(t[3]) : 0.0;
      A << i << "," << t[2];

      if(t.size() > 3)
         A << "," << t[3];

      if(op == "changeRowLhsReal")
      {
         SoPlex_changeRowLhsReal(c, i, a);
         m->changeLhsReal(i, a);
         L.obs = "v=" + dy(cs->lhsReal(i));
      }
      else if(op == "changeRowRhsReal")
      {
         SoPlex_changeRowRhsReal(c, i, a);
         m->changeRhsReal(i, a);
         L.obs = "v=" + dy(cs->rhsReal(i));
      }
      else if(op == "changeRowRangeReal")
      {
         SoPlex_changeRowRangeReal(c, i, a, b);
         m->changeRangeReal(i, a, b);
         L.obs = "v=" + dy(cs->lhsReal(i)) + ";w=" + dy(cs->rhsReal(i));
      }
      else if(op == "changeVarBoundsReal")
      {
         SoPlex_changeVarBoundsReal(c, i, a, b);
         m->changeBoundsReal(i, a, b);
         L.obs = "v=" + dy(cs->lowerReal(i)) + ";w=" + dy(cs->upperReal(i));
      }
      else if(op == "changeVarLowerReal")
      {
         SoPlex_changeVarLowerReal(c, i, a);
         m->changeLowerReal(i, a);
         L.obs = "v=" + dy(cs->lowerReal(i));
      }
      else
      {
         SoPlex_changeVarUpperReal(c, i, a);
         m->changeUpperReal(i, a);
         L.obs = "v=" + dy(cs->upperReal(i));
      }
   }
   else if(op == "changeVarBoundsRational")
   {
      if(cs->intParam(SP::SYNCMODE) == SP::SYNCMODE_ONLYREAL || cs->_rationalLP == nullptr)
      {
         // SYNCMODE_ONLYREAL: the C++ member returns at once, no index is used
         long b[4] = {atol(t[2].c_str()), atol(t[3].c_str()), atol(t[4].c_str()), atol(t[5].c_str())};
         A << 0 << "," << b[0] << "," << b[1] << "," << b[2] << "," << b[3];
         SoPlex_changeVarBoundsRational(c, 0, b[0], b[1], b[2], b[3]);
         m->changeBoundsRational(0, ratOf(b[0], b[1]), ratOf(b[2], b[3]));
         L.obs = "inactive";
      }
      else
      {
         long dimn = cs->numColsRational();

         if(!needIdx(dimn, L))
            return;

         int i = (int)(atol(t[1].c_str()) % dimn);
         long b[4] = {atol(t[2].c_str()), atol(t[3].c_str()), atol(t[4].c_str()), atol(t[5].c_str())};
         A << i << "," << b[0] << "," << b[1] << "," << b[2] << "," << b[3];
         SoPlex_changeVarBoundsRational(c, i, b[0], b[1], b[2], b[3]);
         m->changeBoundsRational(i, ratOf(b[0], b[1]), ratOf(b[2], b[3]));
         L.obs = "v=" + rstr(cs->lowerRational(i)) + ";w=" + rstr(cs->upperRational(i));
      }
   }
   else if(op == "basisRowStatus" || op == "basisColStatus")
   {
      bool row = op == "basisRowStatus";
      long dimn = row ? cs->numRows() : cs->numCols();

      if(!needIdx(dimn, L))
         return;

      int i = (int)(atol(t[1].c_str()) % dimn);
      A << i;

      if(row)
      {
         L.cret = std::to_string(SoPlex_basisRowStatus(c, i));
         L.xret = std::to_string((int) m->basisRowStatus(i));
      }
      else
      {
         L.cret = std::to_string(SoPlex_basisColStatus(c, i));
         L.xret = std::to_string((int) m->basisColStatus(i));
      }
   }
   else if(op == "getRowVectorReal")
   {
      long dimn = cs->numRows();

      if(!needIdx(dimn, L))
         return;

      int i = (int)(atol(t[1].c_str()) % dimn);
      A << i;
      long cap = cs->numCols();
      Guarded<int> nn(1);
      Guarded<long> idx(cap);
      Guarded<double> co(cap);
      nn.a[0] = -77;
      fillL(idx);
      fillD(co);
      SoPlex_getRowVectorReal(c, i, nn.a, idx.a, co.a);
      DSVectorBase<double> rv;
      m->getRowVectorReal(i, rv);
      std::ostringstream o1, o2;
      o1 << nn.a[0] << ":";

      for(int k = 0; k < nn.a[0] && k < cap; k++)
         o1 << (k ? "," : "") << idx.a[k] << "~" << dy(co.a[k]);

      o2 << rv.size() << ":";

      for(int k = 0; k < rv.size(); k++)
         o2 << (k ? "," : "") << rv.index(k) << "~" << dy(rv.value(k));

      L.cret = o1.str();
      L.xret = o2.str();
      L.wr = "0:" + std::string(nn.a[0] != -77 ? "0-1" : "none") + ";1:" + writtenSet(idx.n, [&](size_t k)
      {
         return idx.a[k] != SENT_L;
      }) + ";2:" + writtenSet(co.n, [&](size_t k)
      {
         return !isSentD(co.a[k]);
      });
      L.note += " rowlen=" + std::to_string(rv.size());

      if(!idx.canaryIntact() || !co.canaryIntact() || !nn.canaryIntact())
         L.note += " canary=arg";
   }
   else if(op == "getRowVectorRational")
   {
      if(cs->_rationalLP == nullptr)
      {
         L.skip = true;
         L.note = "skip=norat";
         return;
      }

      long dimn = cs->numRowsRational();

      if(!needIdx(dimn, L))
         return;

      int i = (int)(atol(t[1].c_str()) % dimn);
      A << i;
      L.args = A.str();
      long cap = cs->numColsRational();
      Guarded<int> nn(1);
      Guarded<long> idx(cap), cn(cap), cd(cap);
      nn.a[0] = -77;
      fillL(idx);
      fillL(cn);
      fillL(cd);
      LPRowBase<Rational> lr;
      m->getRowRational(i, lr);
      const SVectorBase<Rational>& rv = lr.rowVector();
      std::ostringstream o2;
      o2 << rv.size() << ":";

      for(int k = 0; k < rv.size(); k++)
         o2 << (k ? "," : "") << rv.index(k) << "~" << rstr(rv.value(k));

      L.xret = o2.str();
      L.note += " rowlen=" + std::to_string(rv.size());
      SoPlex_getRowVectorRational(c, i, nn.a, idx.a, cn.a, cd.a);
      std::ostringstream o1;
      o1 << nn.a[0] << ":";

      for(int k = 0; k < nn.a[0] && k < cap; k++)
      {
         o1 << (k ? "," : "") << idx.a[k] << "~" << cn.a[k];

         if(cd.a[k] != 1)
            o1 << "/" << cd.a[k];
      }

      L.cret = o1.str();
   }
   else if(op == "getRowBoundsReal")
   {
      long dimn = cs->numRows();

      if(!needIdx(dimn, L))
         return;

      int i = (int)(atol(t[1].c_str()) % dimn);
      A << i;
      Guarded<double> lb(1), ub(1);
      fillD(lb);
      fillD(ub);
      SoPlex_getRowBoundsReal(c, i, lb.a, ub.a);
      L.cret = outD(lb) + "," + outD(ub);
      L.xret = dy(m->lhsReal(i)) + "," + dy(m->rhsReal(i));
   }
   else if(op == "getRowBoundsRational")
   {
      if(cs->_rationalLP == nullptr)
      {
         L.skip = true;
         L.note = "skip=norat";
         return;
      }

      long dimn = cs->numRowsRational();

      if(!needIdx(dimn, L))
         return;

      int i = (int)(atol(t[1].c_str()) % dimn);
      A << i;
      Guarded<long> o(4);
      fillL(o);
      SoPlex_getRowBoundsRational(c, i, &o.a[0], &o.a[1], &o.a[2], &o.a[3]);
      std::ostringstream o1;
      o1 << o.a[0];

      if(o.a[1] != 1)
         o1 << "/" << o.a[1];

      o1 << "," << o.a[2];

      if(o.a[3] != 1)
         o1 << "/" << o.a[3];

      L.cret = o1.str();
      L.xret = rstr(m->lhsRational(i)) + "," + rstr(m->rhsRational(i));
   }
   else if(op == "writeFileReal")
   {
      std::string fc = x.dir + "/c." + t[1], fm = x.dir + "/m." + t[1];
      A << t[1];
      unlink(fc.c_str());
      unlink(fm.c_str());
      std::vector<char> name(fc.begin(), fc.end());
      name.push_back(0);
      forward(L, [&]() { SoPlex_writeFileReal(c, name.data()); L.cret = hx(fnv(slurp(fc))); },
              [&]() { m->writeFile(fm.c_str()); L.xret = hx(fnv(slurp(fm))); });
   }
   else if(op == "readInstanceFile" || op == "readSettingsFile")
   {
      std::string f = x.dir + (op == "readInstanceFile" ? "/in." + t[1] : "/in.set");
      std::string content = vf::unhex(op == "readInstanceFile" ? t[2] : t[1]);
      {
         std::ofstream o(f, std::ios::binary);
         o << content;
      }
      A << hx(fnv(content));

      if(op == "readInstanceFile")
      {
         forward(L, [&]() { L.cret = std::to_string(SoPlex_readInstanceFile(c, f.c_str())); },
                 [&]() { L.xret = std::to_string((int) m->readFile(f.c_str())); });
      }
      else
      {
         forward(L, [&]() { L.cret = std::to_string(SoPlex_readSettingsFile(c, f.c_str())); },
                 [&]() { L.xret = std::to_string((int) m->loadSettingsFile(f.c_str())); });
         quiet(*cs);
         quiet(*m);
      }
   }
   else if(op == "readBasisFile")
   {
      std::string f = x.dir + "/b.bas";
      unlink(f.c_str());

      if(!m->hasBasis() || !m->writeBasisFile(f.c_str()))
      {
         L.skip = true;
         L.note = "skip=nobasis";
         return;
      }

      forward(L, [&]() { L.cret = std::to_string(SoPlex_readBasisFile(c, f.c_str())); },
              [&]() { L.xret = std::to_string((int) m->readBasisFile(f.c_str())); });
   }
   else
   {
      L.skip = true;
      L.note = "skip=unknown-op";
   }

   if(L.args.empty())
      L.args = A.str();
}

static int cmdRun(const char* casefile, const char* dir)
{
   std::ifstream in(casefile);
   std::string line;
   Ctx x;
   x.c = nullptr;
   x.cs = nullptr;
   x.m = nullptr;
   x.dir = dir;
   int j = 0;
   bool dead = false;
   signal(SIGSEGV, onSignal);
   signal(SIGBUS, onSignal);
   signal(SIGFPE, onSignal);
   signal(SIGALRM, onSignal);      // watchdog: no call on these tiny LPs takes seconds
#ifdef VERIF_ASAN
   __asan_set_error_report_callback(asanReport);
#endif

   while(std::getline(in, line))
   {
      std::vector<std::string> t = vf::split(line);

      if(t.empty())
         continue;

      if(t[0] == "CASE")
      {
         if(x.c != nullptr && !dead)
         {
            SoPlex_free(x.c);
            delete x.m;
         }

         // (after a fault the two objects are abandoned, not destroyed)
         x.c = SoPlex_create();
         x.cs = (SP*) x.c;
         x.m = new SP();
         quiet(*x.cs);
         quiet(*x.m);
         j = 0;
         dead = false;
         printf("CASE %s\n", t[1].c_str());
         fflush(stdout);
         continue;
      }

      if(dead || x.c == nullptr)
         continue;

      Line* Lp = new Line();      // on the heap: its contents must survive a siglongjmp out of doOp
      Line& L = *Lp;
      SP* cs = x.cs;
      char pre[160];
      snprintf(pre, sizeof(pre), "%d,%d,%d,%d,%d,%d,%d,%d", cs->numRows(), cs->numCols(), (int) cs->hasSol(),
               (int)(cs->_rationalLP != nullptr), (int) cs->_realLP->isScaled(),
               cs->_rationalLP ? cs->numColsRational() : 0, cs->_rationalLP ? cs->numRowsRational() : 0, (int) cs->status());
      g_asanReports = 0;
      g_asanWhat.clear();
      std::string exc;

      // In SYNCMODE_AUTO the two LPs must have the same dimensions; when the library has let them drift apart (C++ side),
      // every further modifier would index one of them out of range: the case ends here.
      if(cs->_rationalLP != nullptr && cs->intParam(SP::SYNCMODE) == SP::SYNCMODE_AUTO
            && (cs->numRows() != cs->numRowsRational() || cs->numCols() != cs->numColsRational()))
      {
         printf("%d %s args=- pre=%s c=- x=- eq=- obs=- wr=- state=- skip=out-of-step\n", j, t[0].c_str(), pre);
         fflush(stdout);
         delete Lp;
         dead = true;
         continue;
      }

      int sig = sigsetjmp(g_jb, 1);

      if(sig == 0)
      {
         g_armed = 1;
         alarm(WATCHDOG_S);

         try
         {
            doOp(t, x, L);
         }
         catch(const std::exception& e)
         {
            exc = std::string("EXC:") + e.what();
         }
         catch(const SPxException& e)
         {
            exc = std::string("SPXEXC:") + e.what();
         }
         catch(...)
         {
            exc = "EXC:?";
         }

         alarm(0);
         g_armed = 0;
      }
      else
      {
         alarm(0);
         g_track = false;
         exc = std::string(g_phase ? "XSIGNAL:" : "SIGNAL:") + std::to_string(sig);
         g_phase = 0;
         g_phaseForReport = 0;
         dead = true;
      }

      for(char& ch : exc)
         if(ch == ' ')
            ch = '_';

      std::string eq = "-";
      std::string dc, dm;

      if(!dead && !L.skip)
      {
         // the observation itself goes through C++ getters; a fault there ends the case
         int sig2 = sigsetjmp(g_jb, 1);

         if(sig2 == 0)
         {
            g_armed = 1;
            g_phase = 1;
            g_phaseForReport = 1;
            std::string e2 = guarded([&]()
            {
               dm = fullDump(*x.m);
            });
            g_phase = 0;
            g_phaseForReport = 0;

            if(e2.empty())
               e2 = guarded([&]()
            {
               dc = fullDump(*x.cs);
            });
            else
               e2 = "X" + e2;

            g_armed = 0;
            eq = !e2.empty() ? "DUMP" + e2 : (dc == dm ? "1" : "0");

            if(!e2.empty())
               dead = true;
         }
         else
         {
            eq = std::string(g_phase ? "DUMPXSIGNAL:" : "DUMPSIGNAL:") + std::to_string(sig2);
            g_phase = 0;
            g_phaseForReport = 0;
            dead = true;
         }
      }

      printf("%d %s args=%s pre=%s c=%s x=%s eq=%s obs=%s wr=%s state=%s", j, t[0].c_str(), L.args.empty() ? "-" : L.args.c_str(), pre,
             L.cret.empty() ? "." : L.cret.c_str(), L.xret.empty() ? "." : L.xret.c_str(), eq.c_str(), L.obs.c_str(), L.wr.c_str(),
             dead || L.skip ? "-" : hx(fnv(dc)).c_str());

      if(!exc.empty())
         printf(" exc=%s", exc.c_str());

      if(g_asanReports > 0)
         printf(" asan=%d:%s", g_asanReports, g_asanWhat.c_str());

      if(!L.note.empty())
         printf(" %s", L.note.c_str()[0] == ' ' ? L.note.c_str() + 1 : L.note.c_str());

      printf("\n");

      if(eq == "0")
      {
         printf("DIFF c %s\n", dc.c_str());
         printf("DIFF x %s\n", dm.c_str());
      }

      if(L.threw || !exc.empty() || eq == "0")
         dead = true;      // after an exception, a fault or a divergence of the two objects the case ends

      fflush(stdout);
      delete Lp;
      j++;
   }

   if(x.c != nullptr && !dead)
   {
      SoPlex_free(x.c);
      delete x.m;
   }

   printf("END\n");
   return 0;
}

int main(int argc, char** argv)
{
   if(argc >= 2 && std::string(argv[1]) == "table")
      return cmdTable();

   if(argc >= 4 && std::string(argv[1]) == "run")
      return cmdRun(argv[2], argv[3]);

   fprintf(stderr, "usage: C20 table | C20 run <cases> <scratch dir>\n");
   return 2;
}
