// C07 harness: interpreter for histories that interleave the REAL and the RATIONAL modification interface of
// SoPlexBase<double> (including the GMP mpq_t entry points), the two explicit sync calls, sync-mode switches and
// changes of the INFTY / OBJSENSE / OBJ_OFFSET parameters.  After every operation it prints one observation line
//   <op> mode=<k> inf=<dyadic> | Q <rational LP through the *Rational accessors, num/den strings> | T rt=.. ct=..
//        | R <real LP through the *Real accessors, exact dyadics> | sync=<areLPsInSync(true,true)> <extras>
// "_rowTypes/_colTypes" are read directly (-fno-access-control).  Sparse entries are sorted by index and explicit
// zeros are not printed (the model is dense).  Compiled against /repo/src on every tree state.
#include "soplex.h"
#include "common.hpp"
#include <algorithm>
#include <fstream>
#include <gmp.h>

using namespace soplex;
using vf::dy;
using vf::undy;
typedef SoPlexBase<double> SP;

static std::ofstream devnull("/dev/null");
static void quiet(SP& s)
{
   for(int v = SPxOut::ERROR; v <= SPxOut::INFO3; v++)
      s.spxout.setStream((SPxOut::Verbosity)v, devnull);

   s.setIntParam(SP::VERBOSITY, 0);
}

static Rational ratOf(const std::string& t)
{
   Rational r;
   mpq_set_str(r.backend().data(), t.c_str(), 10);
   mpq_canonicalize(r.backend().data());
   return r;
}

static std::string rs(const Rational& r)
{
   return r.str();
}

static const char* tyName(int t)
{
   switch(t)
   {
   case SP::RANGETYPE_FREE:
      return "F";

   case SP::RANGETYPE_LOWER:
      return "L";

   case SP::RANGETYPE_UPPER:
      return "U";

   case SP::RANGETYPE_BOXED:
      return "B";

   case SP::RANGETYPE_FIXED:
      return "X";
   }

   return "?";
}

static std::string dumpQ(SP& s)
{
   std::ostringstream o;

   if(s._rationalLP == nullptr)
      return "none";

   int m = s.numRowsRational(), n = s.numColsRational();
   o << "m=" << m << " n=" << n << " lsense=" << (s._rationalLP->spxSense() == SPxLPRational::MAXIMIZE ? 1 : -1)
     << " off=" << rs(s._rationalLP->objOffset());
   o << " obj=";

   for(int j = 0; j < n; j++)
      o << rs(s.objRational(j)) << ",";

   o << " mobj=";

   for(int j = 0; j < n; j++)
      o << rs(s.maxObjRational(j)) << ",";

   o << " lo=";

   for(int j = 0; j < n; j++)
      o << rs(s.lowerRational(j)) << ",";

   o << " up=";

   for(int j = 0; j < n; j++)
      o << rs(s.upperRational(j)) << ",";

   o << " lhs=";

   for(int i = 0; i < m; i++)
      o << rs(s.lhsRational(i)) << ",";

   o << " rhs=";

   for(int i = 0; i < m; i++)
      o << rs(s.rhsRational(i)) << ",";

   o << " A=";

   for(int i = 0; i < m; i++)
   {
      const SVectorRational& r = s.rowVectorRational(i);
      std::vector<std::pair<int, std::string>> es;

      for(int k = 0; k < r.size(); k++)
         if(r.value(k) != 0)
            es.push_back({r.index(k), rs(r.value(k))});

      std::sort(es.begin(), es.end());

      for(auto& e : es)
         o << i << "," << e.first << "," << e.second << ";";
   }

   o << " AT=";

   for(int j = 0; j < n; j++)
   {
      const SVectorRational& c = s.colVectorRational(j);
      std::vector<std::pair<int, std::string>> es;

      for(int k = 0; k < c.size(); k++)
         if(c.value(k) != 0)
            es.push_back({c.index(k), rs(c.value(k))});

      std::sort(es.begin(), es.end());

      for(auto& e : es)
         o << e.first << "," << j << "," << e.second << ";";
   }

   return o.str();
}

static std::string dumpT(SP& s)
{
   std::ostringstream o;
   o << "rt=";

   for(int i = 0; i < s._rowTypes.size(); i++)
      o << tyName((int)s._rowTypes[i]);

   o << ". ct=";

   for(int j = 0; j < s._colTypes.size(); j++)
      o << tyName((int)s._colTypes[j]);

   o << ".";
   return o.str();
}

static std::string dumpR(SP& s)
{
   std::ostringstream o;
   int m = s.numRows(), n = s.numCols();
   o << "m=" << m << " n=" << n << " lsense=" << (s._realLP->spxSense() == SPxLPBase<double>::MAXIMIZE ? 1 : -1)
     << " off=" << dy(s._realLP->objOffset());
   o << " obj=";

   for(int j = 0; j < n; j++)
      o << dy(s.objReal(j)) << ",";

   o << " mobj=";

   for(int j = 0; j < n; j++)
      o << dy(s.maxObjReal(j)) << ",";

   o << " lo=";

   for(int j = 0; j < n; j++)
      o << dy(s.lowerReal(j)) << ",";

   o << " up=";

   for(int j = 0; j < n; j++)
      o << dy(s.upperReal(j)) << ",";

   o << " lhs=";

   for(int i = 0; i < m; i++)
      o << dy(s.lhsReal(i)) << ",";

   o << " rhs=";

   for(int i = 0; i < m; i++)
      o << dy(s.rhsReal(i)) << ",";

   o << " A=";

   for(int i = 0; i < m; i++)
   {
      DSVectorBase<double> r;
      s.getRowVectorReal(i, r);
      std::vector<std::pair<int, double>> es;

      for(int k = 0; k < r.size(); k++)
         if(r.value(k) != 0.0)
            es.push_back({r.index(k), r.value(k)});

      std::sort(es.begin(), es.end());

      for(auto& e : es)
         o << i << "," << e.first << "," << dy(e.second) << ";";
   }

   o << " AT=";

   for(int j = 0; j < n; j++)
   {
      DSVectorBase<double> c;
      s.getColVectorReal(j, c);
      std::vector<std::pair<int, double>> es;

      for(int k = 0; k < c.size(); k++)
         if(c.value(k) != 0.0)
            es.push_back({c.index(k), c.value(k)});

      std::sort(es.begin(), es.end());

      for(auto& e : es)
         o << e.first << "," << j << "," << dy(e.second) << ";";
   }

   return o.str();
}

static std::string extras(SP& s)
{
   std::ostringstream o;

   if(s._rationalLP != nullptr)
   {
      o << "sync=" << (s.areLPsInSync(true, true, true) ? 1 : 0);
      o << " nnzR=" << s._realLP->nNzos() << " nnzQ=" << s._rationalLP->nNzos();
      // the scaling-exponent arrays of the rational LP must cover its rows / columns (removals move their entries)
      o << " sxQ=" << ((LPRowSetBase<Rational>*)(s._rationalLP))->scaleExp.size() << ","
        << ((LPColSetBase<Rational>*)(s._rationalLP))->scaleExp.size();
   }
   else
      o << "sync=-";

   o << " sc=" << (s._realLP->isScaled() ? 1 : 0) << " psense=" << s.intParam(SP::OBJSENSE)
     << " poff=" << dy(s.realParam(SP::OBJ_OFFSET));
   return o.str();
}

struct Tok
{
   std::vector<std::string> t;
   size_t p = 1;
   int i()
   {
      return atoi(t.at(p++).c_str());
   }
   double d()
   {
      return undy(t.at(p++));
   }
   Rational q()
   {
      return ratOf(t.at(p++));
   }
   DSVectorBase<double> dvec()
   {
      int k = i();
      DSVectorBase<double> v(k > 0 ? k : 1);

      for(int c = 0; c < k; c++)
      {
         int idx = i();
         double val = d();
         v.add(idx, val);
      }

      return v;
   }
   DSVectorRational qvec()
   {
      int k = i();
      DSVectorRational v(k > 0 ? k : 1);

      for(int c = 0; c < k; c++)
      {
         int idx = i();
         Rational val = q();
         v.add(idx, val);
      }

      return v;
   }
};

// arrays of mpq_t for the GMP entry points
struct MpqArr
{
   std::vector<__mpq_struct> a;
   MpqArr() {}
   ~MpqArr()
   {
      for(auto& x : a)
         mpq_clear(&x);
   }
   void push(const std::string& t)
   {
      a.emplace_back();
      mpq_init(&a.back());
      mpq_set_str(&a.back(), t.c_str(), 10);
      mpq_canonicalize(&a.back());
   }
   const mpq_t* ptr() const
   {
      static __mpq_struct dummy;
      return (const mpq_t*)(a.empty() ? &dummy : a.data());
   }
   const mpq_t* at(size_t k) const
   {
      return (const mpq_t*)(&a[k]);
   }
};

static std::string permstr(const std::vector<int>& p)
{
   std::ostringstream o;

   for(int x : p)
      o << x << ",";

   return o.str();
}

static void observe(SP& s, const std::string& op, const std::string& add)
{
   printf("%s mode=%d inf=%s%s | Q %s | T %s | R %s | %s\n", op.c_str(), s.intParam(SP::SYNCMODE),
          dy(s.realParam(SP::INFTY)).c_str(), add.c_str(), dumpQ(s).c_str(), dumpT(s).c_str(), dumpR(s).c_str(),
          extras(s).c_str());
   fflush(stdout);
}

static void runCases(const char* file)
{
   std::ifstream in(file);
   std::string line;
   SP* s = nullptr;

   while(std::getline(in, line))
   {
      Tok k;
      k.t = vf::split(line);

      if(k.t.empty())
         continue;

      const std::string op = k.t[0];

      if(op == "CASE")
      {
         // CASE id syncmode sense [scaler persistent]
         delete s;
         s = new SP();
         quiet(*s);
         std::string id = k.t[1];
         k.p = 2;
         int sm = k.i(), sn = k.i();
         int sc = k.p < k.t.size() ? k.i() : 0;
         int ps = k.p < k.t.size() ? k.i() : 0;
         s->setIntParam(SP::SCALER, sc);
         s->setBoolParam(SP::PERSISTENTSCALING, ps != 0);
         s->setIntParam(SP::SIMPLIFIER, 0);
         s->setIntParam(SP::OBJSENSE, sn);
         s->setIntParam(SP::SYNCMODE, sm);
         printf("CASE %s\n", id.c_str());
         char buf[256];
         snprintf(buf, sizeof(buf), " eps=%s rinf=%s", dy(s->realParam(SP::EPSILON_ZERO)).c_str(), dy(infinity).c_str());
         observe(*s, "init", buf);
         continue;
      }

      if(s == nullptr)
         continue;

      std::string add;

      try
      {
         // ------------------------------------------------------------------ real interface
         if(op == "rAR")
         {
            double l = k.d(), r = k.d();
            DSVectorBase<double> v = k.dvec();
            s->addRowReal(LPRowBase<double>(l, v, r));
         }
         else if(op == "rARS")
         {
            int cnt = k.i();
            LPRowSetBase<double> set;

            for(int c = 0; c < cnt; c++)
            {
               double l = k.d(), r = k.d();
               DSVectorBase<double> v = k.dvec();
               set.add(LPRowBase<double>(l, v, r));
            }

            s->addRowsReal(set);
         }
         else if(op == "rAC")
         {
            double ob = k.d(), lo = k.d(), up = k.d();
            DSVectorBase<double> v = k.dvec();
            s->addColReal(LPColBase<double>(ob, v, up, lo));
         }
         else if(op == "rACS")
         {
            int cnt = k.i();
            LPColSetBase<double> set;

            for(int c = 0; c < cnt; c++)
            {
               double ob = k.d(), lo = k.d(), up = k.d();
               DSVectorBase<double> v = k.dvec();
               set.add(LPColBase<double>(ob, v, up, lo));
            }

            s->addColsReal(set);
         }
         else if(op == "rCR")
         {
            int i = k.i();
            double l = k.d(), r = k.d();
            DSVectorBase<double> v = k.dvec();
            s->changeRowReal(i, LPRowBase<double>(l, v, r));
         }
         else if(op == "rCC")
         {
            int j = k.i();
            double ob = k.d(), lo = k.d(), up = k.d();
            DSVectorBase<double> v = k.dvec();
            s->changeColReal(j, LPColBase<double>(ob, v, up, lo));
         }
         else if(op == "rL")
         {
            int i = k.i();
            s->changeLhsReal(i, k.d());
         }
         else if(op == "rR")
         {
            int i = k.i();
            s->changeRhsReal(i, k.d());
         }
         else if(op == "rG")
         {
            int i = k.i();
            double l = k.d(), r = k.d();
            s->changeRangeReal(i, l, r);
         }
         else if(op == "rW")
         {
            int j = k.i();
            s->changeLowerReal(j, k.d());
         }
         else if(op == "rU")
         {
            int j = k.i();
            s->changeUpperReal(j, k.d());
         }
         else if(op == "rB")
         {
            int j = k.i();
            double l = k.d(), u = k.d();
            s->changeBoundsReal(j, l, u);
         }
         else if(op == "rO")
         {
            int j = k.i();
            s->changeObjReal(j, k.d());
         }
         else if(op == "rLV" || op == "rRV" || op == "rWV" || op == "rUV" || op == "rOV")
         {
            int cnt = k.i();
            VectorBase<double> v(cnt);

            for(int c = 0; c < cnt; c++)
               v[c] = k.d();

            if(op == "rLV") s->changeLhsReal(v);
            else if(op == "rRV") s->changeRhsReal(v);
            else if(op == "rWV") s->changeLowerReal(v);
            else if(op == "rUV") s->changeUpperReal(v);
            else s->changeObjReal(v);
         }
         else if(op == "rGV" || op == "rBV")
         {
            int cnt = k.i();
            VectorBase<double> a(cnt), b(cnt);

            for(int c = 0; c < cnt; c++)
               a[c] = k.d();

            for(int c = 0; c < cnt; c++)
               b[c] = k.d();

            if(op == "rGV") s->changeRangeReal(a, b);
            else s->changeBoundsReal(a, b);
         }
         else if(op == "rE")
         {
            int i = k.i(), j = k.i();
            s->changeElementReal(i, j, k.d());
         }
         else if(op == "rRR")
            s->removeRowReal(k.i());
         else if(op == "rRC")
            s->removeColReal(k.i());
         else if(op == "rRRP" || op == "rRCP" || op == "qRRP" || op == "qRCP")
         {
            int cnt = k.i();
            std::vector<int> p(cnt + 1, 12345);

            for(int c = 0; c < cnt; c++)
               p[c] = k.i();

            if(op == "rRRP") s->removeRowsReal(p.data());
            else if(op == "rRCP") s->removeColsReal(p.data());
            else if(op == "qRRP") s->removeRowsRational(p.data());
            else s->removeColsRational(p.data());

            p.resize(cnt);
            add = " perm=" + permstr(p);
         }
         else if(op == "rRRI" || op == "rRCI" || op == "qRRI" || op == "qRCI")
         {
            int cnt = k.i();
            std::vector<int> idx(cnt + 1, 0);

            for(int c = 0; c < cnt; c++)
               idx[c] = k.i();

            if(op == "rRRI") s->removeRowsReal(idx.data(), cnt, nullptr);
            else if(op == "rRCI") s->removeColsReal(idx.data(), cnt, nullptr);
            else if(op == "qRRI") s->removeRowsRational(idx.data(), cnt, nullptr);
            else s->removeColsRational(idx.data(), cnt, nullptr);
         }
         else if(op == "rRRG" || op == "rRCG" || op == "qRRG" || op == "qRCG")
         {
            int a = k.i(), b = k.i();

            if(op == "rRRG") s->removeRowRangeReal(a, b, nullptr);
            else if(op == "rRCG") s->removeColRangeReal(a, b, nullptr);
            else if(op == "qRRG") s->removeRowRangeRational(a, b, nullptr);
            else s->removeColRangeRational(a, b, nullptr);
         }
         else if(op == "rCL")
            s->clearLPReal();
         // ------------------------------------------------------------------ rational interface
         else if(op == "qAR")
         {
            Rational l = k.q(), r = k.q();
            DSVectorRational v = k.qvec();
            s->addRowRational(LPRowRational(l, v, r));
         }
         else if(op == "qARS")
         {
            int cnt = k.i();
            LPRowSetRational set;

            for(int c = 0; c < cnt; c++)
            {
               Rational l = k.q(), r = k.q();
               DSVectorRational v = k.qvec();
               set.add(LPRowRational(l, v, r));
            }

            s->addRowsRational(set);
         }
         else if(op == "qAC")
         {
            Rational ob = k.q(), lo = k.q(), up = k.q();
            DSVectorRational v = k.qvec();
            s->addColRational(LPColRational(ob, v, up, lo));
         }
         else if(op == "qACS")
         {
            int cnt = k.i();
            LPColSetRational set;

            for(int c = 0; c < cnt; c++)
            {
               Rational ob = k.q(), lo = k.q(), up = k.q();
               DSVectorRational v = k.qvec();
               set.add(LPColRational(ob, v, up, lo));
            }

            s->addColsRational(set);
         }
         else if(op == "qCR")
         {
            int i = k.i();
            Rational l = k.q(), r = k.q();
            DSVectorRational v = k.qvec();
            s->changeRowRational(i, LPRowRational(l, v, r));
         }
         else if(op == "qCC")
         {
            int j = k.i();
            Rational ob = k.q(), lo = k.q(), up = k.q();
            DSVectorRational v = k.qvec();
            s->changeColRational(j, LPColRational(ob, v, up, lo));
         }
         else if(op == "qL")
         {
            int i = k.i();
            s->changeLhsRational(i, k.q());
         }
         else if(op == "qR")
         {
            int i = k.i();
            s->changeRhsRational(i, k.q());
         }
         else if(op == "qG")
         {
            int i = k.i();
            Rational l = k.q(), r = k.q();
            s->changeRangeRational(i, l, r);
         }
         else if(op == "qW")
         {
            int j = k.i();
            s->changeLowerRational(j, k.q());
         }
         else if(op == "qU")
         {
            int j = k.i();
            s->changeUpperRational(j, k.q());
         }
         else if(op == "qB")
         {
            int j = k.i();
            Rational l = k.q(), u = k.q();
            s->changeBoundsRational(j, l, u);
         }
         else if(op == "qO")
         {
            int j = k.i();
            s->changeObjRational(j, k.q());
         }
         else if(op == "qLV" || op == "qRV" || op == "qWV" || op == "qUV" || op == "qOV")
         {
            int cnt = k.i();
            VectorRational v(cnt);

            for(int c = 0; c < cnt; c++)
               v[c] = k.q();

            if(op == "qLV") s->changeLhsRational(v);
            else if(op == "qRV") s->changeRhsRational(v);
            else if(op == "qWV") s->changeLowerRational(v);
            else if(op == "qUV") s->changeUpperRational(v);
            else s->changeObjRational(v);
         }
         else if(op == "qGV" || op == "qBV")
         {
            int cnt = k.i();
            VectorRational a(cnt), b(cnt);

            for(int c = 0; c < cnt; c++)
               a[c] = k.q();

            for(int c = 0; c < cnt; c++)
               b[c] = k.q();

            if(op == "qGV") s->changeRangeRational(a, b);
            else s->changeBoundsRational(a, b);
         }
         else if(op == "qE")
         {
            int i = k.i(), j = k.i();
            s->changeElementRational(i, j, k.q());
         }
         else if(op == "qRR")
            s->removeRowRational(k.i());
         else if(op == "qRC")
            s->removeColRational(k.i());
         else if(op == "qCL")
            s->clearLPRational();
         // ------------------------------------------------------------------ GMP entry points
         else if(op == "gAR" || op == "gAC")
         {
            // gAR lhs rhs k (idx val)* ; gAC obj lo up k (idx val)*
            MpqArr head, vals;
            int nh = (op == "gAR") ? 2 : 3;

            for(int c = 0; c < nh; c++)
               head.push(k.t.at(k.p++));

            int cnt = k.i();
            std::vector<int> idx(cnt + 1, 0);

            for(int c = 0; c < cnt; c++)
            {
               idx[c] = k.i();
               vals.push(k.t.at(k.p++));
            }

            if(op == "gAR")
               s->addRowRational(head.at(0), vals.ptr(), idx.data(), cnt, head.at(1));
            else
               s->addColRational(head.at(0), head.at(1), vals.ptr(), idx.data(), cnt, head.at(2));
         }
         else if(op == "gARS" || op == "gACS")
         {
            // gARS cnt (lhs rhs k (idx val)*)* ; gACS cnt (obj lo up k (idx val)*)*
            int cnt = k.i();
            MpqArr a, b, c3, vals;
            std::vector<int> idx, starts, lens;

            for(int c = 0; c < cnt; c++)
            {
               a.push(k.t.at(k.p++));
               b.push(k.t.at(k.p++));

               if(op == "gACS")
                  c3.push(k.t.at(k.p++));

               int len = k.i();
               starts.push_back((int)idx.size());
               lens.push_back(len);

               for(int e = 0; e < len; e++)
               {
                  idx.push_back(k.i());
                  vals.push(k.t.at(k.p++));
               }
            }

            int nv = (int)idx.size();
            idx.push_back(0);
            starts.push_back(0);
            lens.push_back(0);

            if(op == "gARS")
               s->addRowsRational(a.ptr(), vals.ptr(), idx.data(), starts.data(), lens.data(), cnt, nv, b.ptr());
            else
               s->addColsRational(a.ptr(), b.ptr(), vals.ptr(), idx.data(), starts.data(), lens.data(), cnt, nv, c3.ptr());
         }
         else if(op == "gL" || op == "gW" || op == "gU" || op == "gO")
         {
            int i = k.i();
            MpqArr v;
            v.push(k.t.at(k.p++));

            if(op == "gL") s->changeLhsRational(i, v.at(0));
            else if(op == "gW") s->changeLowerRational(i, v.at(0));
            else if(op == "gU") s->changeUpperRational(i, v.at(0));
            else s->changeObjRational(i, v.at(0));
         }
         else if(op == "gG" || op == "gB")
         {
            int i = k.i();
            MpqArr v;
            v.push(k.t.at(k.p++));
            v.push(k.t.at(k.p++));

            if(op == "gG") s->changeRangeRational(i, v.at(0), v.at(1));
            else s->changeBoundsRational(i, v.at(0), v.at(1));
         }
         else if(op == "gRV")
         {
            int cnt = k.i();
            MpqArr v;

            for(int c = 0; c < cnt; c++)
               v.push(k.t.at(k.p++));

            s->changeRhsRational(v.ptr(), cnt);
         }
         else if(op == "gE")
         {
            int i = k.i(), j = k.i();
            MpqArr v;
            v.push(k.t.at(k.p++));
            s->changeElementRational(i, j, v.at(0));
         }
         // ------------------------------------------------------------------ sync, modes, parameters
         else if(op == "SR")
            s->syncLPReal();
         else if(op == "SQ")
            s->syncLPRational();
         else if(op == "XS")
         {
            // what optimize() does first for an exact solve in SYNCMODE_ONLYREAL
            if(s->intParam(SP::SYNCMODE) == SP::SYNCMODE_ONLYREAL)
               s->_syncLPRational();
         }
         else if(op == "M")
         {
            bool ok = s->setIntParam(SP::SYNCMODE, k.i());
            add = ok ? " ok=1" : " ok=0";
         }
         else if(op == "I")
         {
            bool ok = s->setRealParam(SP::INFTY, k.d());
            add = ok ? " ok=1" : " ok=0";
         }
         else if(op == "S")
         {
            bool ok = s->setIntParam(SP::OBJSENSE, k.i());
            add = ok ? " ok=1" : " ok=0";
         }
         else if(op == "F")
         {
            bool ok = s->setRealParam(SP::OBJ_OFFSET, k.d());
            add = ok ? " ok=1" : " ok=0";
         }
         else if(op == "OPT")
         {
            // OPT solvemode : 0 floating point, 2 exact
            int sm = k.i();
            s->setIntParam(SP::SOLVEMODE, sm);

            if(sm == 2)
            {
               s->setRealParam(SP::FEASTOL, 0.0);
               s->setRealParam(SP::OPTTOL, 0.0);
            }

            int st = (int)s->optimize();
            std::ostringstream o;
            o << " ost=" << st;

            if(sm == 2 && s->hasSol())
               o << " oobjq=" << rs(s->objValueRational());
            else
               o << " oobj=" << dy(s->objValueReal());

            add = o.str();
         }
         else
            add = " badop";
      }
      catch(const SPxException& e)
      {
         add += std::string(" EXC=") + vf::hex(e.what());
      }
      catch(const std::exception& e)
      {
         add += std::string(" EXC=") + vf::hex(e.what());
      }

      observe(*s, op, add);
   }

   delete s;
}

// conversions Rational -> double as the code performs them (the model's rounding oracle is checked against these)
static void runConv(const char* file)
{
   std::ifstream in(file);
   std::string t;

   while(in >> t)
   {
      Rational r = ratOf(t);
      double a = (double) r;
      double b = mpq_get_d(r.backend().data());
      VectorRational vq(1);
      vq[0] = r;
      VectorBase<double> vd(vq);
      printf("%s conv=%s getd=%s vec=%s adj=%d%d\n", t.c_str(), dy(a).c_str(), dy(b).c_str(), dy(vd[0]).c_str(),
             isAdjacentTo(r, a) ? 1 : 0, isAdjacentTo(r, b) ? 1 : 0);
   }
}

int main(int argc, char** argv)
{
   if(argc >= 3 && !strcmp(argv[1], "run"))
      runCases(argv[2]);
   else if(argc >= 3 && !strcmp(argv[1], "conv"))
      runConv(argv[2]);
   else
   {
      fprintf(stderr, "usage: C07 run <casefile> | C07 conv <file of num/den tokens>\n");
      return 2;
   }

   return 0;
}
