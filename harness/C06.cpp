// C06 harness: interpreter for histories over the modification entry points of the REAL interface of
// SoPlexBase<double>.  After every operation it prints one observation line: the LP as the public accessors
// report it (exact dyadics), the solution/status flags, and (after "|", not predicted by the model) bookkeeping
// observations: hasBasis, validity of a reported basis, consistency between vector getters / coefReal / row types
// and the single-value getters.  At OPT it also builds a fresh default-settings solver from the reported LP and
// prints status and objective value of both.
// Compiled against /repo/src on every tree state (see vlib.build_harness).
#include "soplex.h"
#include "common.hpp"
#include <algorithm>
#include <fstream>
#include <unistd.h>

using namespace soplex;
using vf::dy;
using vf::undy;
typedef SoPlexBase<double> SP;
typedef SPxSolverBase<double> SX;

static std::ofstream devnull("/dev/null");
static void quiet(SP& s)
{
   for(int v = SPxOut::ERROR; v <= SPxOut::INFO3; v++)
      s.spxout.setStream((SPxOut::Verbosity)v, devnull);

   s.setIntParam(SP::VERBOSITY, 0);
}

static std::string svec(const DSVectorBase<double>& r, int i, bool rowMajor)
{
   std::ostringstream o;
   std::vector<std::pair<int, double>> es;

   for(int k = 0; k < r.size(); k++)
      es.push_back({r.index(k), r.value(k)});

   std::sort(es.begin(), es.end());

   for(auto& e : es)
      o << i << "," << e.first << "," << dy(e.second) << ";";

   return o.str();
}

// the LP as reported by the single-value accessors and the row / column vector getters
static std::string dumpLP(SP& s)
{
   std::ostringstream o;
   int m = s.numRows(), n = s.numCols();
   o << "m=" << m << " n=" << n << " nnz=" << s.numNonzeros();
   o << " sense=" << s.intParam(SP::OBJSENSE);
   o << " lsense=" << (s._realLP->spxSense() == SPxLPBase<double>::MAXIMIZE ? 1 : -1);
   o << " obj=";

   for(int j = 0; j < n; j++)
      o << dy(s.objReal(j)) << ",";

   o << " lo=";

   for(int j = 0; j < n; j++)
      o << dy(s.lowerReal(j)) << ",";

   o << " up=";

   for(int j = 0; j < n; j++)
      o << dy(s.upperReal(j)) << ",";

   o << " lhs=";

   for(int i = 0; i < m; i++)
      o << dy(s.lhsReal(i)) << ",";

   o << " rhs=";

   for(int i = 0; i < m; i++)
      o << dy(s.rhsReal(i)) << ",";

   o << " A=";

   for(int i = 0; i < m; i++)
   {
      DSVectorBase<double> r;
      s.getRowVectorReal(i, r);
      o << svec(r, i, true);
   }

   o << " AT=";

   for(int j = 0; j < n; j++)
   {
      DSVectorBase<double> c;
      s.getColVectorReal(j, c);
      o << svec(c, j, false);
   }

   return o.str();
}

static bool isInf(double v)
{
   return v >= 1e100 || v <= -1e100;
}

static bool sameVal(double a, double b)
{
   if(a == b)
      return true;

   // all values beyond +-infinity denote the same bound
   return (a >= 1e100 && b >= 1e100) || (a <= -1e100 && b <= -1e100);
}

// consistency among accessors that report the same datum (not predicted by the model; compared inside the harness)
static std::string crossChecks(SP& s)
{
   std::ostringstream o;
   int m = s.numRows(), n = s.numCols();
   std::ostringstream vg;
   VectorBase<double> vl(m), vr(m), vlo(n), vup(n), vob(n);
   s.getLhsReal(vl);
   s.getRhsReal(vr);
   s.getLowerReal(vlo);
   s.getUpperReal(vup);
   s.getObjReal(vob);

   for(int i = 0; i < m; i++)
   {
      if(!sameVal(vl[i], s.lhsReal(i)))
         vg << "lhs" << i << "(" << dy(vl[i]) << "/" << dy(s.lhsReal(i)) << ")";

      if(!sameVal(vr[i], s.rhsReal(i)))
         vg << "rhs" << i << "(" << dy(vr[i]) << "/" << dy(s.rhsReal(i)) << ")";
   }

   for(int j = 0; j < n; j++)
   {
      if(!sameVal(vlo[j], s.lowerReal(j)))
         vg << "lo" << j << "(" << dy(vlo[j]) << "/" << dy(s.lowerReal(j)) << ")";

      if(!sameVal(vup[j], s.upperReal(j)))
         vg << "up" << j << "(" << dy(vup[j]) << "/" << dy(s.upperReal(j)) << ")";

      if(!(vob[j] == s.objReal(j)))
         vg << "obj" << j << "(" << dy(vob[j]) << "/" << dy(s.objReal(j)) << ")";

      double mo = s.maxObjReal(j) * (s._realLP->spxSense() == SPxLPBase<double>::MAXIMIZE ? 1.0 : -1.0);

      if(!(mo == s.objReal(j)))
         vg << "maxobj" << j << "(" << dy(mo) << "/" << dy(s.objReal(j)) << ")";
   }

   o << "vg=" << (vg.str().empty() ? "ok" : vg.str());
   // coefReal against the row vectors
   std::ostringstream cf;

   for(int i = 0; i < m; i++)
   {
      DSVectorBase<double> r;
      s.getRowVectorReal(i, r);
      std::vector<double> dense(n, 0.0);

      for(int k = 0; k < r.size(); k++)
         if(r.index(k) >= 0 && r.index(k) < n)
            dense[r.index(k)] = r.value(k);

      for(int j = 0; j < n; j++)
         if(!(s.coefReal(i, j) == dense[j]))
            cf << i << "," << j << "(" << dy(s.coefReal(i, j)) << "/" << dy(dense[j]) << ")";
   }

   o << " cf=" << (cf.str().empty() ? "ok" : cf.str());
   // row types against the sides
   std::ostringstream rt;

   for(int i = 0; i < m; i++)
   {
      double l = s.lhsReal(i), r = s.rhsReal(i);
      int want;

      if(l > -1e100 && r < 1e100)
         want = (l == r) ? (int)LPRowBase<double>::EQUAL : (int)LPRowBase<double>::RANGE;
      else if(l > -1e100)
         want = (int)LPRowBase<double>::GREATER_EQUAL;
      else if(r < 1e100)
         want = (int)LPRowBase<double>::LESS_EQUAL;
      else
         want = -99;   // free row: rowType() is not defined by the documentation (reports RANGE or throws)

      int got = -98;

      try
      {
         got = (int)s.rowTypeReal(i);
      }
      catch(...)
      {
         got = -97;
      }

      if(want != -99 && got != want)
         rt << i << "(" << got << "/" << want << ")";
   }

   o << " rt=" << (rt.str().empty() ? "ok" : rt.str());
   return o.str();
}

// validity of a basis that is reported as available
static std::string basisCheck(SP& s)
{
   if(!s.hasBasis())
      return "none";

   int m = s.numRows(), n = s.numCols();

   if(!s._isRealLPLoaded && (s._basisStatusRows.size() != m || s._basisStatusCols.size() != n))
   {
      std::ostringstream o;
      o << "dim(" << s._basisStatusRows.size() << "x" << s._basisStatusCols.size() << "/" << m << "x" << n << ")";
      return o.str();
   }

   std::vector<SX::VarStatus> rows(m + 1), cols(n + 1);
   s.getBasis(rows.data(), cols.data());
   int nb = 0;
   std::ostringstream bad;
   static const char* nm[] = {"ON_UPPER", "ON_LOWER", "FIXED", "ZERO", "BASIC", "UNDEFINED"};

   for(int i = 0; i < m; i++)
   {
      const char* k = nullptr;

      if(rows[i] == SX::BASIC) nb++;
      else if(rows[i] == SX::UNDEFINED || (int)rows[i] < 0 || (int)rows[i] > 5) k = "undef";
      else if(rows[i] == SX::ON_LOWER && s.lhsReal(i) <= -1e100) k = "bnd";
      else if(rows[i] == SX::ON_UPPER && s.rhsReal(i) >= 1e100) k = "bnd";
      else if(rows[i] == SX::FIXED && !(s.lhsReal(i) == s.rhsReal(i))) k = "fix";

      if(k != nullptr && bad.str().empty())
         bad << k << "(r" << i << ":" << (((int)rows[i] >= 0 && (int)rows[i] <= 5) ? nm[(int)rows[i]] : "?") << ")";
   }

   for(int j = 0; j < n; j++)
   {
      const char* k = nullptr;

      if(cols[j] == SX::BASIC) nb++;
      else if(cols[j] == SX::UNDEFINED || (int)cols[j] < 0 || (int)cols[j] > 5) k = "undef";
      else if(cols[j] == SX::ON_LOWER && s.lowerReal(j) <= -1e100) k = "bnd";
      else if(cols[j] == SX::ON_UPPER && s.upperReal(j) >= 1e100) k = "bnd";
      else if(cols[j] == SX::FIXED && !(s.lowerReal(j) == s.upperReal(j))) k = "fix";

      if(k != nullptr && bad.str().empty())
         bad << k << "(c" << j << ":" << (((int)cols[j] >= 0 && (int)cols[j] <= 5) ? nm[(int)cols[j]] : "?") << ")";
   }

   if(nb != m)
   {
      std::ostringstream o;
      o << "cnt(" << nb << "/" << m << ")";
      return o.str();
   }

   return bad.str().empty() ? "ok" : bad.str();
}

static std::string flags(SP& s)
{
   std::ostringstream o;
   o << "hp=" << (s.hasPrimal() ? 1 : 0) << " hd=" << (s.hasDual() ? 1 : 0) << " hs=" << (s.hasSol() ? 1 : 0)
     << " st=" << (int)s.status();
   return o.str();
}

static std::string extra(SP& s)
{
   std::ostringstream o;
   o << "hb=" << (s.hasBasis() ? 1 : 0) << " ld=" << (s._isRealLPLoaded ? 1 : 0)
     << " sc=" << (s._realLP->isScaled() ? 1 : 0) << " bv=" << basisCheck(s) << " " << crossChecks(s);
   return o.str();
}

struct Tok
{
   std::vector<std::string> t;
   size_t p = 1;
   int i()
   {
      return atoi(t.at(p++).c_str());
   }
   double d()
   {
      return undy(t.at(p++));
   }
   DSVectorBase<double> vec()
   {
      int k = i();
      DSVectorBase<double> v(k > 0 ? k : 1);

      for(int q = 0; q < k; q++)
      {
         int idx = i();
         double val = d();
         v.add(idx, val);
      }

      return v;
   }
};

static std::string permstr(const std::vector<int>& p)
{
   std::ostringstream o;

   for(int x : p)
      o << x << ",";

   return o.str();
}

// solve the LP that the accessors of s report with a newly constructed solver: with default settings (tag "f") and
// with the settings of s (tag "g"), without scaler and simplifier (tag "p"), and without scaler and simplifier but in the
// representation of s (tag "q": the configuration a warm-started solve of s runs in)
static std::string freshSolve(SP& s, int mode, const char* tag)
{
   SP f;
   quiet(f);

   if(mode == 2 || mode == 3)
   {
      // plain: neither scaling nor presolving
      f.setIntParam(SP::SCALER, SP::SCALER_OFF);
      f.setIntParam(SP::SIMPLIFIER, SP::SIMPLIFIER_OFF);
   }

   if(mode == 3)
   {
      // what a warm-started solve of s runs: no scaler, no simplifier, the representation of s
      f.setIntParam(SP::REPRESENTATION, s.intParam(SP::REPRESENTATION));
   }

   if(mode == 1)
   {
      f.setIntParam(SP::SCALER, s.intParam(SP::SCALER));
      f.setBoolParam(SP::PERSISTENTSCALING, s.boolParam(SP::PERSISTENTSCALING));
      f.setIntParam(SP::SIMPLIFIER, s.intParam(SP::SIMPLIFIER));
      f.setIntParam(SP::REPRESENTATION, s.intParam(SP::REPRESENTATION));
   }

   f.setIntParam(SP::OBJSENSE, s.intParam(SP::OBJSENSE));
   f.setRealParam(SP::OBJ_OFFSET, s.realParam(SP::OBJ_OFFSET));
   int m = s.numRows(), n = s.numCols();
   DSVectorBase<double> empty(1);

   for(int j = 0; j < n; j++)
      f.addColReal(LPColBase<double>(s.objReal(j), empty, s.upperReal(j), s.lowerReal(j)));

   for(int i = 0; i < m; i++)
   {
      DSVectorBase<double> r;
      s.getRowVectorReal(i, r);
      f.addRowReal(LPRowBase<double>(s.lhsReal(i), r, s.rhsReal(i)));
   }

   std::ostringstream o;
   int st = (int)f.optimize();
   o << tag << "st=" << st << " " << tag << "obj=" << dy(f.objValueReal());
   return o.str();
}

static void runCases(const char* file)
{
   std::ifstream in(file);
   std::string line;
   SP* s = nullptr;

   while(std::getline(in, line))
   {
      Tok k;
      k.t = vf::split(line);

      if(k.t.empty())
         continue;

      const std::string op = k.t[0];

      if(op == "CASE")
      {
         // CASE id scaler persistent simplifier representation sense
         delete s;
         s = new SP();
         quiet(*s);
         std::string id = k.t[1];
         k.p = 2;
         int sc = k.i(), ps = k.i(), si = k.i(), rp = k.i(), sn = k.i();
         s->setIntParam(SP::SCALER, sc);
         s->setBoolParam(SP::PERSISTENTSCALING, ps != 0);
         s->setIntParam(SP::SIMPLIFIER, si);
         s->setIntParam(SP::REPRESENTATION, rp);
         s->setIntParam(SP::OBJSENSE, sn);
         printf("CASE %s\ninit inf=%s eps=%s %s %s | %s\n", id.c_str(), dy(infinity).c_str(),
                dy(s->realParam(SP::EPSILON_ZERO)).c_str(), dumpLP(*s).c_str(), flags(*s).c_str(), extra(*s).c_str());
         fflush(stdout);
         continue;
      }

      if(s == nullptr)
         continue;

      std::string add;   // op-specific observation (perm arrays, solve results)

      try
      {
         if(op == "AR")
         {
            double l = k.d(), r = k.d();
            DSVectorBase<double> v = k.vec();
            s->addRowReal(LPRowBase<double>(l, v, r));
         }
         else if(op == "ARS")
         {
            int cnt = k.i();
            LPRowSetBase<double> set;

            for(int q = 0; q < cnt; q++)
            {
               double l = k.d(), r = k.d();
               DSVectorBase<double> v = k.vec();
               set.add(LPRowBase<double>(l, v, r));
            }

            s->addRowsReal(set);
         }
         else if(op == "AC")
         {
            double ob = k.d(), lo = k.d(), up = k.d();
            DSVectorBase<double> v = k.vec();
            s->addColReal(LPColBase<double>(ob, v, up, lo));
         }
         else if(op == "ACS")
         {
            int cnt = k.i();
            LPColSetBase<double> set;

            for(int q = 0; q < cnt; q++)
            {
               double ob = k.d(), lo = k.d(), up = k.d();
               DSVectorBase<double> v = k.vec();
               set.add(LPColBase<double>(ob, v, up, lo));
            }

            s->addColsReal(set);
         }
         else if(op == "CR")
         {
            int i = k.i();
            double l = k.d(), r = k.d();
            DSVectorBase<double> v = k.vec();
            s->changeRowReal(i, LPRowBase<double>(l, v, r));
         }
         else if(op == "CC")
         {
            int j = k.i();
            double ob = k.d(), lo = k.d(), up = k.d();
            DSVectorBase<double> v = k.vec();
            s->changeColReal(j, LPColBase<double>(ob, v, up, lo));
         }
         else if(op == "L1")
         {
            int i = k.i();
            s->changeLhsReal(i, k.d());
         }
         else if(op == "R1")
         {
            int i = k.i();
            s->changeRhsReal(i, k.d());
         }
         else if(op == "G1")
         {
            int i = k.i();
            double l = k.d(), r = k.d();
            s->changeRangeReal(i, l, r);
         }
         else if(op == "W1")
         {
            int j = k.i();
            s->changeLowerReal(j, k.d());
         }
         else if(op == "U1")
         {
            int j = k.i();
            s->changeUpperReal(j, k.d());
         }
         else if(op == "B1")
         {
            int j = k.i();
            double l = k.d(), u = k.d();
            s->changeBoundsReal(j, l, u);
         }
         else if(op == "O1")
         {
            int j = k.i();
            s->changeObjReal(j, k.d());
         }
         else if(op == "LV" || op == "RV" || op == "WV" || op == "UV" || op == "OV")
         {
            int cnt = k.i();
            VectorBase<double> v(cnt);

            for(int q = 0; q < cnt; q++)
               v[q] = k.d();

            if(op == "LV") s->changeLhsReal(v);
            else if(op == "RV") s->changeRhsReal(v);
            else if(op == "WV") s->changeLowerReal(v);
            else if(op == "UV") s->changeUpperReal(v);
            else s->changeObjReal(v);
         }
         else if(op == "GV" || op == "BV")
         {
            int cnt = k.i();
            VectorBase<double> a(cnt), b(cnt);

            for(int q = 0; q < cnt; q++)
               a[q] = k.d();

            for(int q = 0; q < cnt; q++)
               b[q] = k.d();

            if(op == "GV") s->changeRangeReal(a, b);
            else s->changeBoundsReal(a, b);
         }
         else if(op == "E")
         {
            int i = k.i(), j = k.i();
            s->changeElementReal(i, j, k.d());
         }
         else if(op == "RR")
            s->removeRowReal(k.i());
         else if(op == "RC")
            s->removeColReal(k.i());
         else if(op == "RRP" || op == "RCP")
         {
            int cnt = k.i();
            std::vector<int> p(cnt + 1, 12345);

            for(int q = 0; q < cnt; q++)
               p[q] = k.i();

            if(op == "RRP") s->removeRowsReal(p.data());
            else s->removeColsReal(p.data());

            p.resize(cnt);
            add = " perm=" + permstr(p);
         }
         else if(op == "RRI" || op == "RCI")
         {
            int cnt = k.i();
            std::vector<int> idx(cnt + 1, 0);

            for(int q = 0; q < cnt; q++)
               idx[q] = k.i();

            int usebuf = k.i();
            int dim = (op == "RRI") ? s->numRows() : s->numCols();
            std::vector<int> p(dim + 1, 12345);

            if(op == "RRI") s->removeRowsReal(idx.data(), cnt, usebuf ? p.data() : nullptr);
            else s->removeColsReal(idx.data(), cnt, usebuf ? p.data() : nullptr);

            p.resize(dim);

            if(usebuf)
               add = " perm=" + permstr(p);
         }
         else if(op == "RRG" || op == "RCG")
         {
            int a = k.i(), b = k.i(), usebuf = k.i();
            int dim = (op == "RRG") ? s->numRows() : s->numCols();
            std::vector<int> p(dim + 1, 12345);

            if(op == "RRG") s->removeRowRangeReal(a, b, usebuf ? p.data() : nullptr);
            else s->removeColRangeReal(a, b, usebuf ? p.data() : nullptr);

            p.resize(dim);

            if(usebuf)
               add = " perm=" + permstr(p);
         }
         else if(op == "CL")
            s->clearLPReal();
         else if(op == "SS")
            s->setIntParam(SP::OBJSENSE, k.i());
         else if(op == "OPT")
         {
            int st = (int)s->optimize();
            std::ostringstream o;
            o << " ost=" << st << " oobj=" << dy(s->objValueReal()) << " " << freshSolve(*s, 0, "f") << " "
              << freshSolve(*s, 1, "g") << " " << freshSolve(*s, 2, "p") << " " << freshSolve(*s, 3, "q");
            add = o.str();
         }
         else if(op == "GB")
         {
            int m = s->numRows(), n = s->numCols();
            std::vector<SX::VarStatus> rows(m + 1), cols(n + 1);
            s->getBasis(rows.data(), cols.data());
         }
         else if(op == "SB")
         {
            // 0: slack basis; 1: what getBasis reports now
            int mode = k.i();
            int m = s->numRows(), n = s->numCols();
            std::vector<SX::VarStatus> rows(m + 1), cols(n + 1);

            if(mode == 1)
               s->getBasis(rows.data(), cols.data());
            else
            {
               for(int i = 0; i < m; i++)
                  rows[i] = SX::BASIC;

               for(int j = 0; j < n; j++)
               {
                  double lo = s->lowerReal(j), up = s->upperReal(j);
                  cols[j] = (lo > -1e100 && up < 1e100 && lo == up) ? SX::FIXED : lo > -1e100 ? SX::ON_LOWER : up < 1e100 ?
                            SX::ON_UPPER : SX::ZERO;
               }
            }

            s->setBasis(rows.data(), cols.data());
         }
         else if(op == "CB")
            s->clearBasis();
         else if(op == "XU")
         {
            // white box: put the object into the "real LP outside the solver" state that _preprocessAndSolveReal
            // creates when it copies the LP (and keeps when a solve ends with an error status)
            if(s->_isRealLPLoaded)
            {
               if(s->_hasBasis)
               {
                  s->_basisStatusRows.reSize(s->numRows());
                  s->_basisStatusCols.reSize(s->numCols());
                  s->_solver.getBasis(s->_basisStatusRows.get_ptr(), s->_basisStatusCols.get_ptr(),
                                      s->_basisStatusRows.size(), s->_basisStatusCols.size());
               }

               s->_realLP = nullptr;
               spx_alloc(s->_realLP);
               s->_realLP = new(s->_realLP) SPxLPBase<double>(s->_solver);
               s->_isRealLPLoaded = false;
            }
         }
         else
            add = " badop";
      }
      catch(const SPxException& e)
      {
         add += std::string(" EXC=") + vf::hex(e.what());
      }
      catch(const std::exception& e)
      {
         add += std::string(" EXC=") + vf::hex(e.what());
      }

      printf("%s %s %s%s | %s\n", op.c_str(), dumpLP(*s).c_str(), flags(*s).c_str(), add.c_str(), extra(*s).c_str());
      fflush(stdout);
   }

   delete s;
}

int main(int argc, char** argv)
{
   if(argc >= 3 && !strcmp(argv[1], "run"))
      runCases(argv[2]);
   else
   {
      fprintf(stderr, "usage: C06 run <casefile>\n");
      return 2;
   }

   return 0;
}
