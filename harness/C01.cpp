// C01/C02/C16 harness: solve LPs given as exact rationals (dyadic data, so the double LP is the same LP) under
// arbitrary parameter settings and print everything the user can obtain from the solver, exactly.
//   exact runs (rational solve mode) serve as an UNTRUSTED producer of certificates; the proved checker decides.
#include "soplex.h"
#include "common.hpp"
#include <fstream>
#include <sstream>
#include <map>

using namespace soplex;
using vf::dy;
typedef SoPlexBase<double> SP;

static std::ofstream devnull("/dev/null");
// records of the guarded driver hook (src/soplex.h, SOPLEX_VERIF_DRIVER_TRACE) for the optimize() call in progress
static std::vector<long> drvTrace;
static void optimizeTraced(SP& s)
{
   drvTrace.clear();
#ifdef SCIPOPT_SOPLEX_VERIF
   verifDriverTraceSink() = &drvTrace;
#endif

   try
   {
      s.optimize();
   }
   catch(...)
   {
#ifdef SCIPOPT_SOPLEX_VERIF
      verifDriverTraceSink() = nullptr;
#endif
      throw;
   }

#ifdef SCIPOPT_SOPLEX_VERIF
   verifDriverTraceSink() = nullptr;
#endif
}
static void quiet(SP& s)
{
   for(int v = SPxOut::ERROR; v <= SPxOut::INFO3; v++)
      s.spxout.setStream((SPxOut::Verbosity)v, devnull);
}

struct CaseLP
{
   bool maxi;
   std::string offset;
   std::vector<std::string> obj, lo, up, lhs, rhs;
   std::vector<std::vector<std::pair<int, std::string>>> rows;
};

static double num(const std::string& t)
{
   if(t == "inf") return infinity;

   if(t == "-inf") return -infinity;

   size_t c = t.find('/');

   if(c == std::string::npos) return atof(t.c_str());

   return atof(t.substr(0, c).c_str()) / atof(t.substr(c + 1).c_str());
}

static void load(SP& s, const CaseLP& L)
{
   s.setIntParam(SP::OBJSENSE, L.maxi ? SP::OBJSENSE_MAXIMIZE : SP::OBJSENSE_MINIMIZE);
   DSVector empty(0);

   for(size_t j = 0; j < L.obj.size(); j++)
      s.addColReal(LPCol(num(L.obj[j]), empty, num(L.up[j]), num(L.lo[j])));

   for(size_t i = 0; i < L.rows.size(); i++)
   {
      DSVector r((int)L.rows[i].size());

      for(auto& e : L.rows[i])
         r.add(e.first, num(e.second));

      s.addRowReal(LPRow(num(L.lhs[i]), r, num(L.rhs[i])));
   }

   s.setRealParam(SP::OBJ_OFFSET, num(L.offset));
}

static bool setParam(SP& s, const std::string& kv)
{
   size_t e = kv.find('=');
   std::string k = kv.substr(0, e), v = kv.substr(e + 1);
   auto& st = *s._currentSettings;

   for(int i = 0; i < SP::BOOLPARAM_COUNT; i++)
      if(st.boolParam.name[i] == k)
         return s.setBoolParam((SP::BoolParam)i, v == "1" || v == "true");

   for(int i = 0; i < SP::INTPARAM_COUNT; i++)
      if(st.intParam.name[i] == k)
         return s.setIntParam((SP::IntParam)i, atoi(v.c_str()));

   for(int i = 0; i < SP::REALPARAM_COUNT; i++)
      if(st.realParam.name[i] == k)
         return s.setRealParam((SP::RealParam)i, v.find(':') != std::string::npos ? vf::undy(v) : atof(v.c_str()));

   if(k == "seed")
   {
      s.setRandomSeed((unsigned)strtoul(v.c_str(), nullptr, 10));
      return true;
   }

   return false;
}

static const char* statusName(SPxSolverBase<double>::Status st)
{
   switch(st)
   {
   case SPxSolverBase<double>::ERROR: return "ERROR";
   case SPxSolverBase<double>::NO_RATIOTESTER: return "NO_RATIOTESTER";
   case SPxSolverBase<double>::NO_PRICER: return "NO_PRICER";
   case SPxSolverBase<double>::NO_SOLVER: return "NO_SOLVER";
   case SPxSolverBase<double>::NOT_INIT: return "NOT_INIT";
   case SPxSolverBase<double>::ABORT_CYCLING: return "ABORT_CYCLING";
   case SPxSolverBase<double>::ABORT_TIME: return "ABORT_TIME";
   case SPxSolverBase<double>::ABORT_ITER: return "ABORT_ITER";
   case SPxSolverBase<double>::ABORT_VALUE: return "ABORT_VALUE";
   case SPxSolverBase<double>::SINGULAR: return "SINGULAR";
   case SPxSolverBase<double>::NO_PROBLEM: return "NO_PROBLEM";
   case SPxSolverBase<double>::REGULAR: return "REGULAR";
   case SPxSolverBase<double>::RUNNING: return "RUNNING";
   case SPxSolverBase<double>::UNKNOWN: return "UNKNOWN";
   case SPxSolverBase<double>::OPTIMAL: return "OPTIMAL";
   case SPxSolverBase<double>::UNBOUNDED: return "UNBOUNDED";
   case SPxSolverBase<double>::INFEASIBLE: return "INFEASIBLE";
   case SPxSolverBase<double>::INForUNBD: return "INForUNBD";
   case SPxSolverBase<double>::OPTIMAL_UNSCALED_VIOLATIONS: return "OPTIMAL_UNSCALED_VIOLATIONS";
   default: return "OTHER";
   }
}

static std::string vecD(const VectorBase<double>& v)
{
   std::string o;

   for(int i = 0; i < v.dim(); i++)
      o += dy(v[i]) + ",";

   return o.empty() ? "," : o;
}

static std::string vecQ(const VectorRational& v)
{
   std::string o;

   for(int i = 0; i < v.dim(); i++)
      o += v[i].str() + ",";

   return o.empty() ? "," : o;
}

static const char* basisName(SPxSolverBase<double>::VarStatus s)
{
   switch(s)
   {
   case SPxSolverBase<double>::ON_UPPER: return "U";
   case SPxSolverBase<double>::ON_LOWER: return "L";
   case SPxSolverBase<double>::FIXED: return "F";
   case SPxSolverBase<double>::ZERO: return "Z";
   case SPxSolverBase<double>::BASIC: return "B";
   default: return "?";
   }
}

// everything the user can read after a floating-point solve
static void report(SP& s, const char* tag, const std::string& id)
{
   int n = s.numCols(), m = s.numRows();
   auto st = s.status();
   printf("%s %s status=%s iters=%d", tag, id.c_str(), statusName(st), s.numIterations());
   // which presolve reductions were applied (private statistics of the internal simplifier) and the representation used
   printf(" rep=%s alg=%s ps=", s._solver.rep() == SPxSolverBase<double>::COLUMN ? "C" : "R",
          s._solver.type() == SPxSolverBase<double>::ENTER ? "E" : "L");

   if(s._simplifier != nullptr)
      for(int k = 0; k < s._simplifierMainSM.m_stat.size(); k++)
         if(s._simplifierMainSM.m_stat[k] > 0)
            printf("%d:%d;", k, s._simplifierMainSM.m_stat[k]);

   printf(", hasSol=%d pfeas=%d dfeas=%d hasBasis=%d", s.hasSol() ? 1 : 0, s.isPrimalFeasible() ? 1 : 0, s.isDualFeasible() ? 1 : 0,
          s.hasBasis() ? 1 : 0);
   VectorBase<double> x(n), sl(m), y(m), d(n);

   if(s.isPrimalFeasible() && s.getPrimal(x) && s.getSlacksReal(sl))
      printf(" obj=%s x=%s s=%s", dy(s.objValueReal()).c_str(), vecD(x).c_str(), vecD(sl).c_str());

   if(s.isDualFeasible() && s.getDual(y) && s.getRedCost(d))
      printf(" y=%s d=%s", vecD(y).c_str(), vecD(d).c_str());

   if(s.hasPrimalRay())
   {
      VectorBase<double> r(n);

      if(s.getPrimalRayReal(r.get_ptr(), n))
         printf(" ray=%s", vecD(r).c_str());
   }

   if(s.hasDualFarkas())
   {
      VectorBase<double> f(m);

      if(s.getDualFarkasReal(f.get_ptr(), m))
         printf(" farkas=%s", vecD(f).c_str());
   }

   if(s.hasBasis())
   {
      std::vector<SPxSolverBase<double>::VarStatus> rs(m), cs(n);
      s.getBasis(rs.data(), cs.data());
      printf(" brows=");

      for(int i = 0; i < m; i++) printf("%s", basisName(rs[i]));

      printf(", bcols=");

      for(int j = 0; j < n; j++) printf("%s", basisName(cs[j]));

      printf(",");
   }

   // the solve driver: the parameters it reads, its control trace, and the flags it leaves
   printf(" drvp=%d,%d,%d,%d,%d drvf=%d,%d,%d,%d drv=", s.intParam(SP::SIMPLIFIER) != SP::SIMPLIFIER_OFF ? 1 : 0,
          s.intParam(SP::SCALER) != SP::SCALER_OFF ? 1 : 0, s.boolParam(SP::PERSISTENTSCALING) ? 1 : 0, s.boolParam(SP::ENSURERAY) ? 1 : 0,
          (s.realParam(SP::OBJLIMIT_LOWER) == -s.realParam(SP::INFTY) && s.realParam(SP::OBJLIMIT_UPPER) == s.realParam(SP::INFTY)) ? 0 : 1,
          (int)st, s.hasBasis() ? 1 : 0, s.hasPrimalRay() ? 1 : 0, s.hasDualFarkas() ? 1 : 0);

   for(size_t k = 0; k + 4 < drvTrace.size(); k += 5)
      printf("%ld,%ld,%ld,%ld,%ld;", drvTrace[k], drvTrace[k + 1], drvTrace[k + 2], drvTrace[k + 3], drvTrace[k + 4]);

   printf("\n");
   fflush(stdout);
}

static void reportExact(SP& s, const std::string& id)
{
   int n = s.numCols(), m = s.numRows();
   auto st = s.status();
   printf("EXACT %s status=%s", id.c_str(), statusName(st));
   VectorRational x(n), y(m), r(n), f(m);

   if(s.isPrimalFeasible() && s.getPrimalRational(x))
      printf(" x=%s objq=%s", vecQ(x).c_str(), s.objValueRational().str().c_str());

   if(s.isDualFeasible() && s.getDualRational(y))
      printf(" y=%s", vecQ(y).c_str());

   if(s.hasPrimalRay() && s.getPrimalRayRational(r))
      printf(" ray=%s", vecQ(r).c_str());

   if(s.hasDualFarkas() && s.getDualFarkasRational(f))
      printf(" farkas=%s", vecQ(f).c_str());

   printf("\n");
   fflush(stdout);
}

int main(int argc, char** argv)
{
   if(argc < 2)
   {
      fprintf(stderr, "usage: C01 <casefile>\n");
      return 2;
   }

   std::ifstream in(argv[1]);
   std::string line;
   CaseLP L;
   std::string id;

   while(std::getline(in, line))
   {
      auto t = vf::split(line);

      if(t.empty()) continue;

      if(t[0] == "LP")
      {
         L = CaseLP();
         id = t[1];
         L.maxi = t[2] == "max";
         L.offset = t[3];
         printf("CASE %s\n", id.c_str());
      }
      else if(t[0] == "C")
      {
         L.obj.push_back(t[1]);
         L.lo.push_back(t[2]);
         L.up.push_back(t[3]);
      }
      else if(t[0] == "R")
      {
         L.lhs.push_back(t[1]);
         L.rhs.push_back(t[2]);
         std::vector<std::pair<int, std::string>> r;

         for(size_t k = 3; k < t.size(); k++)
         {
            size_t c = t[k].find(':');
            r.push_back({atoi(t[k].substr(0, c).c_str()), t[k].substr(c + 1)});
         }

         L.rows.push_back(r);
      }
      else if(t[0] == "EXACT")
      {
         try
         {
            SP s;
            quiet(s);
            s.setIntParam(SP::SYNCMODE, SP::SYNCMODE_AUTO);
            s.setIntParam(SP::SOLVEMODE, SP::SOLVEMODE_RATIONAL);
            s.setIntParam(SP::CHECKMODE, SP::CHECKMODE_RATIONAL);
            s.setRealParam(SP::FEASTOL, 0.0);
            s.setRealParam(SP::OPTTOL, 0.0);

            for(size_t k = 1; k < t.size(); k++)
               setParam(s, t[k]);

            load(s, L);
            s.optimize();
            reportExact(s, id);
         }
         catch(const std::exception& e)
         {
            printf("EXACT %s status=EXCEPTION\n", id.c_str());
         }
      }
      else if(t[0] == "GATE")
      {
         // GATE <id> k=v ... x=<dyadics> y=<dyadics> d=<dyadics>: solve (so that a basis exists and the LP may be persistently
         // scaled), overwrite the stored solution vectors and call the four violation functions of the verification gate
         try
         {
            SP s;
            quiet(s);
            std::string xs, ys, ds;

            for(size_t k = 2; k < t.size(); k++)
            {
               if(t[k].compare(0, 2, "x=") == 0) xs = t[k].substr(2);
               else if(t[k].compare(0, 2, "y=") == 0) ys = t[k].substr(2);
               else if(t[k].compare(0, 2, "d=") == 0) ds = t[k].substr(2);
               else setParam(s, t[k]);
            }

            load(s, L);
            s.optimize();
            int n = s.numCols(), m = s.numRows();
            auto fill = [](VectorBase<double>& v, const std::string& txt, int dim)
            {
               v.reDim(dim);
               std::stringstream ss(txt);
               std::string item;
               int k = 0;

               while(std::getline(ss, item, ',') && k < dim)
                  if(!item.empty())
                     v[k++] = vf::undy(item);

               for(; k < dim; k++) v[k] = 0.0;
            };
            fill(s._solReal._primal, xs, n);
            fill(s._solReal._dual, ys, m);
            fill(s._solReal._redCost, ds, n);
            s._solReal._slacks.reDim(m);
            s._hasSolReal = true;
            s._solReal._isPrimalFeasible = true;
            s._solReal._isDualFeasible = true;
            double a1 = -1, b1 = -1, a2 = -1, b2 = -1, a3 = -1, b3 = -1, a4 = -1, b4 = -1;
            bool r1 = s.getBoundViolation(a1, b1), r2 = s.getRowViolation(a2, b2), r3 = s.getDualViolation(a3, b3),
                 r4 = s.getRedCostViolation(a4, b4);
            printf("GATE %s scaled=%d hasBasis=%d ret=%d%d%d%d bv=%s,%s rv=%s,%s dv=%s,%s cv=%s,%s rst=", t[1].c_str(),
                   s._isRealLPScaled ? 1 : 0, s.hasBasis() ? 1 : 0, r1, r2, r3, r4, dy(a1).c_str(), dy(b1).c_str(), dy(a2).c_str(),
                   dy(b2).c_str(), dy(a3).c_str(), dy(b3).c_str(), dy(a4).c_str(), dy(b4).c_str());

            for(int i = 0; i < m; i++) printf("%s", basisName(s.basisRowStatus(i)));

            printf(", cst=");

            for(int j = 0; j < n; j++) printf("%s", basisName(s.basisColStatus(j)));

            printf(",\n");
            fflush(stdout);
         }
         catch(const std::exception& e)
         {
            printf("GATE %s status=EXCEPTION what=%s\n", t[1].c_str(), vf::hex(e.what()).c_str());
         }
      }
      else if(t[0] == "HIST")
      {
         // HIST <histid> step ...   one solver object, several solves of the SAME LP: a step is k=v (parameter change),
         // OPT (optimize and report as HRUN <histid>.<n>) or CLB (clearBasis)
         try
         {
            SP s;
            quiet(s);
            bool ok = true, loaded = false;
            int nopt = 0;

            for(size_t k = 2; k < t.size(); k++)
            {
               if(t[k] == "OPT")
               {
                  if(!loaded)
                  {
                     load(s, L);
                     loaded = true;
                  }

                  optimizeTraced(s);
                  report(s, "HRUN", t[1] + "." + std::to_string(nopt++) + (ok ? "" : "!badparam"));
               }
               else if(t[k] == "CLB")
                  s.clearBasis();
               else if(t[k] == "OPTQ")
               {
                  // an unreported solve (of a temporarily modified LP)
                  if(!loaded)
                  {
                     load(s, L);
                     loaded = true;
                  }

                  s.optimize();
               }
               else if(t[k].compare(0, 4, "CHB:") == 0)
               {
                  // CHB:<j>:<lo>:<up>  changeBoundsReal (the history brings the LP back to the case LP before the next reported solve)
                  if(!loaded)
                  {
                     load(s, L);
                     loaded = true;
                  }

                  std::vector<std::string> f;
                  {
                     std::string cur;

                     for(char ch : t[k])
                     {
                        if(ch == ':')
                        {
                           f.push_back(cur);
                           cur.clear();
                        }
                        else
                           cur += ch;
                     }

                     f.push_back(cur);
                  }
                  int j = f.size() > 1 ? atoi(f[1].c_str()) : -1;

                  if(f.size() == 4 && j >= 0 && j < s.numCols())
                     s.changeBoundsReal(j, num(f[2]), num(f[3]));
               }
               else
                  ok = setParam(s, t[k]) && ok;
            }
         }
         catch(const std::exception& e)
         {
            printf("HRUN %s status=EXCEPTION what=%s\n", t[1].c_str(), vf::hex(e.what()).c_str());
         }
      }
      else if(t[0] == "RUN")
      {
         // RUN <runid> k=v ...
         try
         {
            SP s;
            quiet(s);
            bool ok = true;

            for(size_t k = 2; k < t.size(); k++)
               ok = setParam(s, t[k]) && ok;

            load(s, L);
            optimizeTraced(s);
            report(s, "RUN", t[1] + (ok ? "" : "!badparam"));
         }
         catch(const std::exception& e)
         {
            printf("RUN %s status=EXCEPTION what=%s\n", t[1].c_str(), vf::hex(e.what()).c_str());
         }
      }
   }

   return 0;
}
